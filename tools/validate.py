#!/usr/bin/env python3-vt
import json, jsonschema, sys, glob
jsonschema.validate(json.load(open('/verif/MANIFEST.json')), json.load(open('/root/.vp/MANIFEST.schema.json')))
print("manifest valid")
es=json.load(open('/root/.vp/EVIDENCE.schema.json'))
for f in sorted(glob.glob('/verif/evidence/*.json')):
    jsonschema.validate(json.load(open(f)), es)
print("evidence valid:", len(glob.glob('/verif/evidence/*.json')))
