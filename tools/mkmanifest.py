#!/usr/bin/env python3
"""Regenerates MANIFEST.json from the table below (kept next to the code that implements
the checks so that the two cannot drift apart)."""
import json, os, subprocess
V = os.path.dirname(os.path.dirname(os.path.abspath(__file__)))
props = [json.loads(l) for l in open(os.path.join(V, "properties.jsonl"))]

CLAIMS = {}
def claim(pid, category, text, note, technique, design_ref, engine):
    CLAIMS[pid] = dict(category=category, text=text, note=note, technique=technique, design_ref=design_ref, engine=engine)

SEQ_NOTE = ("Trusted: the abstraction function (harness/cachereplay.go observe/treeOf), the concretisation of model contents as Spec files, "
            "TLC. Small-scope: <=3 directories, <=3 Spec names, 2 devices, <=3 kinds, histories <=12 operations.")
claim("C01", "model_checking",
      "TLC checks exhaustively, over every directory list x population x short history of a bounded universe, that the refresh algorithm as coded (ascending scan, conflict set) computes exactly the declarative precedence rule (PrecedenceOK); every enumerated population and thousands of seeded random histories are then executed on the real Cache and the whole query API (devices, winning file, priority, content version, vendors, classes, Specs) compared with the model after NewCache and after every Refresh. In the other direction every refresh recorded (verif build, CDI_VERIF_TRACE) during the replay and during the repository's own pkg/cdi test suite is validated by TLC against RefreshTrace: the index must be what the precedence rule yields for the population the scan saw.",
      SEQ_NOTE, "TLA+ spec CacheSeq/Resolve model-checked with TLC; behaviours replayed into the real Cache; recorded refreshes (replay + repository tests) trace-validated against RefreshTrace; inductive invariant of the scan for arbitrary priorities discharged by Apalache (ScanInd)", "5 C01, 4.1, 4.2", "cacheseq")
claim("C13", "model_checking",
      "Same state machine with faults at every position (syntax/semantic/empty/dangling files, directory missing, a file, below a file): TLC checks IsolationOK and the replay compares devices, GetErrors key set (must/may bounds), GetSpecErrors consistency and Refresh()'s error against the model after every refresh, including repairs; the auto-refresh histories are also executed with 'missing' concretised as ENOTDIR (a path below a regular file).",
      SEQ_NOTE + " Unreadable (EACCES) files and directories are replayed by a harness process that has switched to uid 65534 (needs the check to start as root, as in this sandbox; started unprivileged it runs as it is).", "TLA+ spec CacheSeq (fault placements, incl. permission faults) model-checked with TLC; behaviours replayed into the real Cache", "5 C13", "cacheseq")
claim("C04", "model_checking",
      "Inject is an action of the CacheSeq state machine; for every request over resolvable/unknown/unqualified/empty/conflict-removed/shadowed names (with repetitions; requests of 1-2 tokens exhaustively and long ones of 9, 12 and 17 tokens built from every pair) the replay requires the exact miss list in order, an error, a byte-identical OCI spec, and the nil-spec refusal.",
      SEQ_NOTE, "TLA+ spec CacheSeq (Inject action) with TLC; replay into real InjectDevices with deep before/after comparison", "5 C04", "cacheseq")
claim("C16", "model_checking",
      "WriteSpec/RemoveSpec are actions of the CacheSeq state machine (last directory, created if missing, failure leaves everything unchanged); TLC checks WriteWins; the replay snapshots the whole scratch tree before/after each call and requires exactly one path to change, the content to read back, the devices to resolve there after Refresh and RemoveSpec to delete exactly it.",
      SEQ_NOTE + " The name-generation half (transient ids with '/', '..', extensions) is decided by the SpecName oracle table.", "TLA+ spec CacheSeq (ApiWrite/ApiRemove actions, WriteWins) with TLC; replay with directory-tree snapshots", "5 C16", "cacheseq")

EDIT_NOTE = ("Trusted: the oracle Apply/Compose in spec/Edits.tla (a transcription of SPEC.md and the statement, with its own invariants checked by TLC), "
             "the projection OciView (harness/editsreplay.go), TLC. env compared as effective map, device nodes as a set keyed by path.")
claim("C03", "model_checking",
      "Apply is transcribed into TLA+ from SPEC.md; TLC enumerates every edit list of <=2/<=3 atoms from 31 atoms (env repeats, 7 node shapes incl. host completion, unclean/equal-depth/duplicate mount destinations, six hook stages, GIDs 0/dup, RDT) x 6 initial OCI specs (nil sections, populated, uid/gid zero or not, 15 equal-depth mounts) x 3 host tables, checks the statement's clauses on the oracle itself, and every row is executed on the real Apply/ApplyEdits with mknod-made host nodes and compared field by field, rest of the OCI spec by digest.",
      EDIT_NOTE, "TLA+ oracle (EditsApply) enumerated by TLC, one implementation test per state, replayed into real ContainerEdits.Apply", "5 C03, 4.3", "edits")
claim("C02", "model_checking",
      "Compose(request) is defined over the precedence rule of module Resolve; TLC enumerates 32 cache populations x every ordered selection of distinct resolvable devices x initial OCI specs and multi-step injection histories; the real cache is populated with files whose every edit names its origin and InjectDevices' result is compared with Apply(oci, Compose(request)).",
      EDIT_NOTE, "TLA+ spec EditsInject (Compose over Resolve) enumerated by TLC; behaviours replayed into real Cache.InjectDevices", "5 C02", "edits")
claim("C14", "model_checking",
      "State machine inject / change host nodes / inject: after every step the JSON image of every cached Spec and device (through the query API) must be unchanged, each injection must match the model's result for the current host table, cached Specs must be writable again; every C03 row additionally checks that Apply leaves the edits passed in untouched.",
      EDIT_NOTE, "TLA+ spec EditsInject histories (TLC exhaustive + simulate) replayed into the real Cache with before/after images", "5 C14", "edits")

DOC_NOTE = ("Trusted: the TLA+ transcription of the rule, the one-spelling-per-token renderer (harness), TLC. Exhaustive for single-slot changes of the base documents; multi-slot changes are sampled.")
claim("C05", "model_checking",
      "The admission rule of SPEC.md is transcribed into TLA+ over a token model of the document; TLC enumerates every document one slot away from four base documents (every defect kind of the statement at spec level, first/middle/last device, first/last list element, plus all well-formed alternatives) and random documents up to three changes away; each is rendered as JSON and YAML and must be admitted iff Admissible by ReadSpec, by a cache refresh (error entry iff inadmissible, neighbour file unaffected) and by WriteSpec (nothing written when rejected).",
      DOC_NOTE, "TLA+ decision procedure (SpecDoc.Admissible) enumerated by TLC, one implementation test per state, evaluated on ReadSpec/cache/WriteSpec", "5 C05, 4.4", "specdoc")
claim("C06", "model_checking",
      "Required(doc) = highest introduction version of the features used anywhere; TLC checks order-independence on the model and enumerates feature placements (spec level, device k of n, every gated feature, every released and malformed declared version); MinimumRequiredVersion, ValidateVersion and ReadSpec are evaluated under every permutation of the devices.",
      DOC_NOTE, "TLA+ decision procedure (SpecDoc.Required/VersionValid) enumerated by TLC, evaluated on specs.MinimumRequiredVersion/ValidateVersion under all device permutations", "5 C06", "specdoc")
STR_NOTE = "Trusted: the TLA+ grammar, the symbol-to-bytes concretisation with class-preserving substitutions, TLC. Exhaustive up to the stated string lengths over the stated alphabets."
claim("C07", "model_checking",
      "The grammar is transcribed into TLA+ (Split/Parse/VCOK/NameOK); TLC enumerates every string up to length 4/5 over a 13-symbol alphabet and 3/4 over a 20-symbol boundary alphabet plus part-structured vendor/class=name combinations, checks round-trip/failure-contract/compose-parse on the oracle, and every row is evaluated on all seven parser entry points in three spellings.",
      STR_NOTE, "TLA+ decision procedure (QName.Parse) enumerated by TLC, evaluated on parser.ParseQualifiedName/IsQualifiedName/ParseDevice/QualifiedName/Validate*", "5 C07", "strings")
claim("C15", "model_checking",
      "Annotation map state machine in TLA+ (Update/Parse with run-length strings for lengths around 63); TLC explores all single and double updates over 16 plugins x 15 ids x 8 device lists x 5 initial maps (single updates), every pair of updates over a core universe, and random triples; the real helpers must leave the map untouched on failure, add exactly one legal key whose value parses back, never overwrite, and Parse must return per-key devices in order or an error with empty results.",
      STR_NOTE, "TLA+ state machine (Annotations) explored by TLC, behaviours replayed into cdi.UpdateAnnotations/ParseAnnotations/AnnotationKey/AnnotationValue", "5 C15", "strings")

claim("C10", "model_checking",
      "The write protocol is a TLA+ state machine (one action per system call, crash at every step, failing create/write-at-every-chunk/rename, a scanner with separate open and read, several writers); TLC checks NoPartialVisible, ImmutableVisible, ScannerSeesWhole exhaustively. The code is bound three ways: the directory is inspected byte-for-byte and scanned by a real cache at every write.* hook point, after SIGKILL at every point and after a write failing at every offset (RLIMIT_FSIZE); and strace traces of the real writer are validated by TLC against a protocol-agnostic file-system trace specification with the invariants evaluated in every state.",
      "Trusted: strace decoding + tools/strace2ndjson.py, the hook placement, TLC. Crash = process death (not power loss). EFBIG stands in for ENOSPC.",
      "TLA+ protocol model (SpecWrite) checked by TLC + trace validation of strace traces against FSTrace + hook-driven crash/fault injection", "5 C10, 4.5", "specwrite")

AUTO_NOTE = ("Trusted: the model of inotify/fsnotify delivery (from reading fsnotify 1.5.1), the gate hook placement, the 10 s/2 s timing windows, TLC. "
             "Liveness is checked under weak fairness on delivery, handler and queries; on the code, convergence is observed by polling.")
claim("C11", "model_checking",
      "CacheAuto is a TLA+ model of directories, kernel inotify queues, the fsnotify reader, the watcher goroutine - whose critical section is two steps (update the watches; rescan) with directory operations in between - and queries; TLC checks convergence (liveness under fairness) over every history of <=4/6 operations of the statement's list at every interleaving. Seeded behaviours and the counter-example schedules the model yields when a repair is switched off are executed on a real auto-refresh cache at four pacings (free; the recorded schedule enforced by blocking gates at watch.prelock, watch.updated and after the rescan; watcher held to the end; the operations that follow the creation or a Configure performed inside that call, right after its scan) and the query API is polled until it equals a fresh cache. Each execution at the first two pacings is recorded through the hooks (file-system operations, receives, handler and operation snapshots of tracked map / directories in error / indexed content) and validated by TLC against CacheAutoTrace: some behaviour of the model must explain every event and snapshot.",
      AUTO_NOTE, "TLA+ model (CacheAuto) with liveness checked by TLC; behaviours and directed counter-example schedules replayed into a real auto-refresh cache through a scheduler gate; the recorded executions trace-validated against CacheAutoTrace", "5 C11, 4.2", "cacheauto")
claim("C20", "model_checking",
      "Same model with Configure (new watcher and dirErrors map per configuration, goroutines keeping captured arguments, descriptor shortage): TLC checks ConfigureFresh, Bounded, Settles, WatchesOK and convergence over <=2/3 reconfigurations; behaviours are replayed on a real cache; a separate process performs 200/2000 reconfigurations watching inotify descriptors, kernel watches and goroutines, the reaction to changes in final vs dropped directories, descriptor exhaustion before/between reconfigurations and the default cache. The recorded executions (including every Configure with its snapshot) are validated by TLC against CacheAutoTrace.",
      AUTO_NOTE, "TLA+ model (CacheAuto with Configure) checked by TLC; behaviours replayed; recorded executions trace-validated against CacheAutoTrace; /proc-based resource probes over long reconfiguration sequences", "5 C20", "cacheauto")
claim("C12", "model_checking",
      "Lock discipline as a TLA+ model over Go memory locations (read/write sets of prelude and critical section per public operation, watcher goroutine, atomic switcher): TLC checks NoRace, MutualExclusion, SnapshotOK and deadlock freedom over every interleaving of the explored client programs. The same programs run replicated on all cores under the race detector against a real cache whose directory is flipped by rename between two contents; any race report, any result that is neither content, any stall is a violation. In the other direction concurrent executions of Refresh and the query API on three caches (manual; auto-refresh without a watcher, where every call rescans; auto-refresh with a watcher) over a file replaced by rename with contents of increasing version are recorded (calls, returns with the version shown, renames, one total order) and each log is validated by TLC against CacheLin: accepted iff one critical section per call, the renames' effects and the watcher's rescans can be placed so that every returned version is explained (linearizability w.r.t. the sequential cache: a manual query answers from the index exactly, a completed Refresh shows in every later query, versions never go back, no result mixes versions).",
      "Exhaustive for the model; statistical for the code (race detector sound for executions seen). The read/write-set table is a transcription of cache.go.",
      "TLA+ lock-discipline model (CacheConc) checked by TLC; the explored client programs executed as a -race stress against the real cache; recorded concurrent executions trace-validated (linearizability) by TLC against CacheLin", "5 C12", "cacheconc")

SCHEMA_NOTE = ("Trusted: the draft-07 subset evaluator in spec/Schema.tla and tools/schema2tla.py (stops with exit 2 if the files start using a keyword it does not implement), the JSON mutation generator, TLC. gojsonschema is exercised only on the documents enumerated.")
claim("C17", "model_checking",
      "tools/schema2tla.py regenerates a TLA+ module from the shipped schema.json/defs.json at every run; spec/Schema.tla (a draft-07 evaluator) gives the verdict for each of ~3k (quick) documents: token documents of the SpecDoc generator, every single-position JSON mutation of the base documents (removed member, 11 wrong-typed values, 11 landmark numbers, extra member), re-marshalled struct forms and non-object documents. Every entry point (bytes as JSON and YAML, .json/.yaml files, reader, ReadAndValidate, ValidateType, Validate(*Spec)) under builtin, externally loaded, none and nil schema must agree with it (with the stated tolerance for ill-formed annotation keys).",
      SCHEMA_NOTE, "JSON-Schema evaluator written in TLA+ over a module generated from the shipped files; TLC evaluates each document; verdicts compared with every entry point of the real validator", "5 C17, 4.6", "schema")
claim("C18", "model_checking",
      "For every enumerated document that the library itself accepts (hook timeouts within 0..2^32-1) the TLA+ oracle over the shipped schema files must say valid, every builtin-schema entry point must accept it, and with the builtin schema installed as Spec validator WriteSpec (.json and .yaml), ReadSpec, Refresh and ValidateFile of the written files must all succeed.",
      SCHEMA_NOTE + " Library-valid = WriteSpec without validator succeeds.", "TLA+ schema oracle + library admission as generator filter; round trips with the schema installed as validator", "5 C18", "schema")

claim("C19", "model_checking",
      "The CLI is treated as a second implementation of the query actions of the CacheSeq model: for a seeded sample of the populations TLC enumerates, the built cdi binary is run (devices, vendors, classes, specs, validate, inject in both output formats) and its listings, files in error, exit status and injected OCI spec are compared with the library configured the same way and with the model's device list; the validate binary's exit status is compared with schema validation for sampled documents and three schema choices, via file argument and stdin.",
      "Trusted: the regular expressions parsing the tools' output, the library as reference for the listing comparison (itself bound to the model by C01). monitor/resolve not exercised. Sampled, not exhaustive.",
      "TLC-enumerated populations (CacheSeq) replayed through the built cdi/validate binaries and the library side by side", "5 C19", "cli")

claim("C09", "exploration",
      "Systematic round-trip exploration driven by a TLA+ generator: slot x string-class x encoding (and integer field x extreme); each value is written by WriteSpec under .json/.yaml/no extension, read back by ReadSpec and loaded by a cache, and must be equal in every field. The model states the write/read state machine; it cannot reason about YAML scalar resolution, so the assurance is that of a large targeted test.",
      "Exploration only: a pool of 80 hostile strings plus seeded random UTF-8 per slot, not all strings. Equality is semantic (nil = empty, pointers by pointee).",
      "TLA+-generated slot x string-class x encoding enumeration, round-tripped through WriteSpec/ReadSpec/cache", "5 C09, 8", "roundtrip")

claim("C08", "exploration",
      "Exploration: the structured corpora generated from the TLA+ models of every other family plus byte-level perturbations of every generated document are executed against all entry points taking untrusted input, under recover() and a watchdog, including a live auto-refresh cache whose watcher goroutine must keep refreshing. Every other check also reports a panic or hang met during its own replay.",
      "A universal claim over byte strings is a fuzzing claim; this is a structured corpus, not a proof. Crashes needing a byte pattern that no model slot or listed perturbation describes are missed.",
      "model-derived corpus + named lexical perturbations executed under a crash/hang monitor", "5 C08, 8", "nocrash")

ENGINES = [
 {"name": "nocrash", "path": "harness/nocrash.go", "serves_properties": ["C08"], "kind_free_text": "corpus replay under recover()/watchdog, live watcher"},
 {"name": "roundtrip", "path": "spec/RoundTrip.tla harness/roundtrip.go", "serves_properties": ["C09"], "kind_free_text": "generator + round-trip harness"},
 {"name": "cli", "path": "harness/cli.go spec/CacheSeq.tla", "serves_properties": ["C19"], "kind_free_text": "built binaries run on model-enumerated populations; stdout/exit status vs library vs model"},
 {"name": "schema", "path": "tools/schema2tla.py spec/Schema.tla harness/schemaoracle.go", "serves_properties": ["C17", "C18"],
  "kind_free_text": "draft-07 subset evaluator in TLA+ over a module generated from the shipped schema files; documents by JSON mutation; all validator entry points"},
 {"name": "cacheauto", "path": "spec/CacheAuto.tla spec/CacheAutoTrace.tla tools/autotrace.py harness/autoreplay.go harness/overflow.go harness/reconf.go", "serves_properties": ["C11", "C20", "C01"],
  "kind_free_text": "TLA+ model of the auto-refresh cache incl. bounded kernel queues, fsnotify's reader, goroutines with a two-step critical section, Configure, descriptor shortage; replay with scheduler gates; recorded executions trace-validated by TLC; resource probes"},
 {"name": "cacheconc", "path": "spec/CacheConc.tla spec/CacheLin.tla harness/stress.go harness/lin.go tools/lintrace.py", "serves_properties": ["C12"],
  "kind_free_text": "lock-discipline model + race-detector stress of TLC's client programs + linearizability trace validation of recorded concurrent executions"},
 {"name": "specwrite", "path": "spec/SpecWrite.tla spec/FSTrace.tla harness/writer.go tools/strace2ndjson.py", "serves_properties": ["C10"],
  "kind_free_text": "protocol model + generic FS trace spec; real writer observed through hooks, kill -9, RLIMIT_FSIZE and strace"},
 {"name": "specdoc", "path": "spec/SpecDoc.tla spec/SpecDocGen.tla spec/MCSpecDoc.tla harness/specdoc.go", "serves_properties": ["C05", "C06"],
  "kind_free_text": "token model of the Spec document with admission and required-version rules; TLC enumerates documents, harness renders JSON/YAML and runs every entry point"},
 {"name": "strings", "path": "spec/QName.tla spec/QNameStrings.tla spec/QNameParts.tla spec/Annotations.tla harness/qname.go harness/annot.go", "serves_properties": ["C07", "C15"],
  "kind_free_text": "grammar and annotation-map models over symbol strings, enumerated by TLC, evaluated on the parser and annotation helpers"},
 {"name": "edits", "path": "spec/Edits.tla spec/EditsApply.tla spec/EditsInject.tla harness/editsreplay.go harness/injectreplay.go", "serves_properties": ["C02", "C03", "C14"],
  "kind_free_text": "TLA+ oracle for container edits and injection, enumerated by TLC, replayed into the real code with real device nodes"},
 {"name": "cacheseq", "path": "spec/CacheSeq.tla spec/Resolve.tla spec/MCCacheSeq.tla spec/RefreshTrace.tla spec/ScanInd.tla spec/SpecName.tla harness/cachereplay.go harness/specname.go harness/autorefresh.go", "serves_properties": ["C01", "C04", "C13", "C16"],
  "kind_free_text": "TLA+ state machine of the manual-refresh cache, TLC exhaustive + simulate, behaviours replayed into the real cdi.Cache (permission faults as an unprivileged process); recorded refreshes trace-validated; inductive invariant of the scan by Apalache"},
]

def main():
    hooks_commits = []
    try:
        out = subprocess.run(["git", "-C", "/repo", "log", "--format=%H %s"], capture_output=True, text=True).stdout
        hooks_commits = [l.split()[0] for l in out.splitlines() if " verif:" in l or l.split(" ", 1)[1].startswith("verif")]
    except Exception:
        pass
    checks = []
    for p in props:
        pid = p["id"]
        if pid not in CLAIMS:
            continue
        c = CLAIMS[pid]
        checks.append({
            "property_id": pid,
            "quick_cmd": "./check %s quick" % pid,
            "thorough_cmd": "./check %s thorough" % pid,
            "evidence_file": "evidence/%s.json" % pid,
            "replay_cmd_template": "./check %s --replay {path}" % pid,
            "engine": c["engine"],
            "level_claimed": {"category": c["category"], "text": c["text"], "design_ref": c["design_ref"]},
            "level_note": c["note"],
            "technique": c["technique"],
        })
    na = [{"property_id": p["id"], "reason": "check not built yet (work in progress; DESIGN.md section 9 gives the plan)"} for p in props if p["id"] not in CLAIMS]
    m = {"version": 1,
         "setup_cmd": "./check setup",
         "hooks": {"guard": "verif", "enable": "go build -tags verif (the harness module /verif/harness replaces the repository modules with /repo)",
                   "baseline_off_cmd": "cd /repo && export GOFLAGS=-mod=mod GOPROXY=off GOSUMDB=off && for m in . specs-go schema cmd/cdi cmd/validate; do (cd $m && go test -json -vet=off -count=1 -timeout 25m ./...) || exit 1; done",
                   "source_commits": hooks_commits, "add_only": True},
         "engines": ENGINES,
         "checks": checks,
         "notes": "Model-based verification with explicit TLA+ specifications (spec/), TLC, and conformance by replay / trace validation against the code built from /repo's working tree. See DESIGN.md.",
         "not_applicable": na}
    json.dump(m, open(os.path.join(V, "MANIFEST.json"), "w"), indent=1)
    print("claimed:", " ".join(sorted(CLAIMS)), "| not claimed:", len(na))

if __name__ == "__main__":
    main()
