"""Per-property checks.  Every function returns an Outcome dict:
   level, coverage (EVIDENCE schema keys), mismatches (real-code disagreements that are
   violations of *this* property), assumptions."""
import json, os, re, shutil, sys, time, concurrent.futures as cf
import vlib
from vlib import ToolFailure, run_tlc, run_harness, write_rows

CHECKS = {}


def check(*props):
    def deco(f):
        for p in props:
            CHECKS[p] = f
        return f
    return deco


def parallel(*thunks):
    with cf.ThreadPoolExecutor(max_workers=len(thunks)) as ex:
        futs = [ex.submit(t) for t in thunks]
        return [f.result() for f in futs]


def model_must_hold(res, what):
    """An invariant of the specification failing on the *model* is not a verdict about the
    code: the model (or its bound) is wrong.  Reported as a tool failure (exit 2)."""
    if res.violated:
        raise ToolFailure("SPEC-DRIFT: %s violated in the model (%s)\n%s" % (",".join(res.violated), what, "\n".join(res.trace[:60])))


def tagged(mismatches, prop):
    return [m for m in mismatches if prop in m.get("props", []) or "TOOL" in m.get("props", [])]


def tool_errors(mismatches):
    t = [m for m in mismatches if "TOOL" in m.get("props", [])]
    if t:
        raise ToolFailure("harness could not execute a case: %s" % json.dumps(t[0])[:600])


def scratch_file(name):
    os.makedirs(vlib.OUT, exist_ok=True)
    return os.path.join(vlib.OUT, "%d-%s" % (os.getpid(), name))


# ---------------------------------------------------------------------------------------
# conclude: known findings, replay files, evidence, exit status

def finding_matches(f, m):
    mt = f.get("match", {})
    if mt.get("what") and mt["what"] != m.get("what"):
        return False
    blob = json.dumps({k: v for k, v in m.items() if k != "row"}, sort_keys=True, default=str) + json.dumps(m.get("row"), sort_keys=True, default=str)
    return all(s in blob for s in mt.get("contains", []))


def conclude(prop, tier, seed, out, wall):
    known = vlib.known_for(prop)
    hits = {}
    viol = []
    for m in out.get("mismatches", []):
        k = next((f for f in known if finding_matches(f, m)), None)
        if k is not None:
            hits.setdefault(k["id"], (k, 0))
            hits[k["id"]] = (k, hits[k["id"]][1] + 1)
        else:
            viol.append(m)
    for fid, (k, n) in sorted(hits.items()):
        print("KNOWN-FINDING: property=%s %s: %s (%d occurrence(s) this run)" % (prop, fid, k["text"], n))
    cov = out["coverage"]
    cov.setdefault("known_findings_hit", sorted(hits))
    shown = 0
    for m in viol:
        if shown >= 5:
            break
        path = vlib.write_replay(prop, {"property": prop, "tier": tier, "seed": seed, "mismatch": m,
                                        "replay_with": out.get("replay_with", "")})
        want = json.dumps(m.get("want"), default=str)[:300]
        got = json.dumps(m.get("got"), default=str)[:300]
        print("VIOLATION property=%s replay=%s" % (prop, path))
        print("  what=%s case=%s step=%s\n  spec says: %s\n  code did:  %s" % (m.get("what"), m.get("case"), m.get("step"), want, got))
        if m.get("note"):
            print("  note: %s" % str(m["note"])[:800])
        shown += 1
    if len(viol) > shown:
        print("  (+%d further disagreements of the same run)" % (len(viol) - shown))
    nviol = out.get("n_violations_total")
    if nviol is None or not viol:
        nviol = len(viol)
    vlib.write_evidence(prop, tier, seed, out["level"], cov, wall, violations=nviol, assumptions=out.get("assumptions", []))
    print("%s %s: %s; evaluations=%s distinct_nontrivial=%s states=%s wall=%.1fs" % (
        prop, tier, "VIOLATED" if viol else "held on everything explored",
        cov.get("evaluations"), cov.get("distinct_nontrivial"), cov.get("states"), wall))
    return 1 if viol else 0


def replay(prop, path, seed):
    rec = json.load(open(path))
    m = rec["mismatch"]
    rw = rec.get("replay_with") or ""
    if m.get("what") == "not-linearizable" and m.get("row"):
        # a recorded execution: validated again by TLC against the current spec/CacheLin.tla
        import lintrace
        ok, _ = lintrace.validate_events(m["row"]["trace"], "linreplay")
        if not ok:
            print("VIOLATION property=%s replay=%s" % (prop, path))
            print("  what=not-linearizable: the recorded execution is still rejected by spec/CacheLin.tla (first unexplained entry: %s)" % json.dumps(m.get("got"))[:400])
            return 1
        print("the recorded execution is accepted by the current specification")
        return 0
    if not rw or m.get("row") is None:
        print("this record carries no replayable case")
        return 2
    f = scratch_file("replay.ndjson")
    write_rows([m["row"]], f)
    if m.get("replay_sub"):
        rw = m["replay_sub"]
    sub, *extra = rw.split()
    res, err = run_harness(sub, ["-cases", f, "-seed", rec.get("seed", seed)] + extra, race="-race" in extra)
    os.unlink(f)
    bad = tagged(res["mismatches"], prop)
    for b in bad:
        print("VIOLATION property=%s replay=%s" % (prop, path))
        print("  what=%s step=%s\n  spec says: %s\n  code did:  %s" % (b.get("what"), b.get("step"), json.dumps(b.get("want"))[:400], json.dumps(b.get("got"))[:400]))
    if not bad:
        print("not reproduced on the current tree")
    return 1 if bad else 0


def setup():
    vlib.build_harness()
    vlib.build_harness(race=True)
    vlib.build_cli()
    r = vlib.sh(["tlc", "-h"], check=False)
    print("setup ok")
    return 0


# ---------------------------------------------------------------------------------------
# family: sequential cache (C01 C04 C13 C16) - spec/CacheSeq.tla, harness replay-cache

def cacheseq_runs(tier, seed):
    if tier == "quick":
        mc_cfg, gen_cfgs, nsim, simdepth = "CacheSeq_mc_quick.cfg", ["CacheSeq_q0.cfg", "CacheSeq_t2.cfg", "CacheSeq_q3.cfg", "CacheSeq_inj.cfg", "CacheSeq_repair.cfg"], 250, 9
    else:
        mc_cfg, gen_cfgs, nsim, simdepth = "CacheSeq_mc_thorough.cfg", ["CacheSeq_q0.cfg", "CacheSeq_t0.cfg", "CacheSeq_t1.cfg", "CacheSeq_t2.cfg", "CacheSeq_q3.cfg", "CacheSeq_inj.cfg", "CacheSeq_injT.cfg", "CacheSeq_repair.cfg"], 1500, 13
    thunks = [lambda: run_tlc("MCCacheSeq", mc_cfg, deadlock=True, timeout=3000, workers=8)]
    for g in gen_cfgs:
        thunks.append(lambda g=g: run_tlc("MCCacheSeq", g, deadlock=True, timeout=3000, workers=4))
    simcfg = "CacheSeq_sim.cfg" if tier == "quick" else "CacheSeq_simT.cfg"
    thunks.append(lambda: run_tlc("MCCacheSeq", simcfg, deadlock=True, timeout=3000,
                                  simulate="num=%d" % nsim, depth=simdepth, seed=seed, workers=4))
    rs = parallel(*thunks)
    mc, gens, sim = rs[0], rs[1:-1], rs[-1]
    model_must_hold(mc, mc_cfg)
    for g in gens + [sim]:
        model_must_hold(g, "generation")
    rows = [r for g in gens for r in g.rows] + sim.rows
    return mc, rows, len(sim.rows)


def refresh_trace_validation(seed, extra_trace):
    """Runs the repository's own pkg/cdi tests with the verif tag and CDI_VERIF_TRACE, adds the refreshes
    recorded during the replay, and lets TLC validate every distinct one against RefreshTrace."""
    t1 = scratch_file("repo-tests-refreshes.ndjson")
    env = vlib.goenv()
    env["CDI_VERIF_TRACE"] = t1
    p = vlib.sh(["go", "test", "-tags", "verif", "-vet=off", "-count=1", "./pkg/cdi/"], cwd=vlib.REPO, env=env, timeout=1500, check=False)
    evs, seen, n = [], set(), 0
    try:
        for path in (t1, extra_trace):
            if not path or not os.path.exists(path):
                continue
            for l in open(path):
                try:
                    e = json.loads(l)
                except Exception:
                    continue
                n += 1
                specs = [{"path": x["path"], "prio": x["priority"], "qs": sorted(x["vendor"] + "/" + x["class"] + "=" + d for d in x["devices"])} for x in e["specs"]]
                devs = [{"q": q, "path": v["path"], "prio": v["priority"]} for q, v in e["devices"].items()]
                base = lambda pth: os.path.basename(os.path.dirname(pth)) + "/" + os.path.basename(pth)
                k = json.dumps([sorted((base(x["path"]), x["prio"], tuple(x["qs"])) for x in specs), sorted((d["q"], base(d["path"]), d["prio"]) for d in devs)])
                if k not in seen:
                    seen.add(k)
                    evs.append({"specs": specs, "devs": devs})
    finally:
        for path in (t1, extra_trace):
            if path and os.path.exists(path):
                os.unlink(path)
    if n == 0:
        raise ToolFailure("no refresh was recorded (hooks missing, or the repository's tests did not build):\n" + (p.stdout or "")[-1500:])
    mism = []
    # validate in chunks so that a rejected refresh can be named
    chunk = 400
    for i in range(0, len(evs), chunk):
        part = evs[i:i + chunk]
        ft = scratch_file("refresh-trace.ndjson")
        write_rows(part, ft)
        try:
            r = run_tlc("RefreshTrace", "RefreshTrace.cfg", env_extra={"TRACE": ft}, workers=1, timeout=900)
        finally:
            os.unlink(ft)
        if "IndexIsPrecedence" in r.violated:
            m = re.search(r"i = (\d+)", "\n".join(r.trace[::-1]))
            idx = None
            for l in r.trace:
                mm = re.match(r"^/?\\?\s*i = (\d+)", l.strip())
                if mm:
                    idx = int(mm.group(1))
            bad = part[idx - 1] if idx else part[0]
            mism.append({"what": "recorded-refresh-violates-the-precedence-rule", "props": ["C01"], "case": -1, "step": -1,
                         "want": "index = precedence rule applied to the Specs the refresh loaded", "got": bad["devs"], "note": json.dumps(bad)[:3000], "row": None})
        elif r.violated:
            raise ToolFailure("SPEC-DRIFT: RefreshTrace could not consume the recorded refreshes: %s\n%s" % (r.violated, r.raw_tail[-800:]))
    return {"mismatches": mism, "events": n, "distinct": len(evs)}


@check("C01", "C04", "C13", "C16")
def cacheseq(prop, tier, seed):
    vlib.build_harness()
    mc, rows, nsim = cacheseq_runs(tier, seed)
    f = scratch_file("cacheseq.ndjson")
    replay_trace = scratch_file("cacheseq-refreshes.ndjson")
    write_rows(rows, f)
    try:
        res, err = run_harness("replay-cache", ["-cases", f, "-seed", seed],
                               env_extra={"CDI_VERIF_TRACE": replay_trace} if prop == "C01" else None)
    finally:
        os.unlink(f)
    tool_errors(res["mismatches"])
    mine = tagged(res["mismatches"], prop)
    ops = {}
    for r in rows:
        for s in r["hist"]:
            ops[s["op"]] = ops.get(s["op"], 0) + 1
    relevant = {"C01": ("new", "refresh"), "C13": ("new", "refresh"), "C04": ("inject",), "C16": ("apiwrite", "apiremove")}[prop]
    nrel = sum(ops.get(o, 0) for o in relevant)
    if nrel == 0:
        raise ToolFailure("vacuous: no %s step in the generated behaviours" % (relevant,))
    sample = rows[len(rows) // 2]
    cov = {
        "states": mc.distinct, "transitions": mc.generated, "depth": mc.depth,
        "traces_validated_against_impl": res["evaluations"],
        "evaluations": res["evaluations"], "distinct_nontrivial": res["distinct_nontrivial"],
        "steps_replayed": res["steps"], "steps_by_operation": ops, "steps_relevant_to_property": nrel,
        "random_histories": nsim,
        "rule": "TLC enumerates every directory list x population of the bounded universe (exhaustive, depth 0) and "
                "seeded random histories (tlc -simulate); every behaviour is executed on the real Cache and the API view "
                "compared with the model's after NewCache and every Refresh. distinct = distinct JSON rows; non-trivial = "
                "expected view has a device or a failing file, or an injection with a miss",
        "exhaustive": True,
        "samples": [sample],
        "checker_cmd": "tlc MCCacheSeq (-config CacheSeq_mc_%s.cfg; generation cfgs; -simulate) + harness replay-cache" % tier,
    }
    if prop == "C01":
        # binding B (code -> spec): every refresh completed by the repository's own test-suite (built with the
        # verif tag) and by the replay above is validated by TLC against the precedence rule (spec/RefreshTrace.tla)
        tv = refresh_trace_validation(seed, replay_trace)
        mine += tv["mismatches"]
        cov["refresh_events_recorded"] = tv["events"]
        cov["refresh_events_distinct_validated"] = tv["distinct"]
        cov["traces_validated_against_impl"] += tv["distinct"]
        cov["rule"] += ("; plus trace validation: %d refreshes recorded from the repository's own pkg/cdi tests and from this replay "
                        "(%d distinct up to renaming) accepted by TLC against spec/RefreshTrace.tla" % (tv["events"], tv["distinct"]))
    if prop in ("C01", "C13"):
        # "in both manual and automatic refresh configurations" (C01) / "every later repair" of an unscannable
        # directory (C13): directory histories on an auto-refresh cache; in every other behaviour a directory that
        # does not exist is a path below a regular file (ENOTDIR) instead of a missing entry
        g, g2 = parallel(lambda: run_tlc("CacheAuto", "CacheAuto_gen1.cfg", timeout=1800, simulate="num=%d" % (25 if tier == "quick" else 300), depth=40, seed=seed, workers=4, deadlock=True),
                         # two configured directories (their paths are string prefixes of each other in the harness), one of them missing at times
                         lambda: run_tlc("CacheAuto", "CacheAuto_gen2.cfg", timeout=1800, simulate="num=%d" % (10 if tier == "quick" else 150), depth=60, seed=seed, workers=4, deadlock=True))
        model_must_hold(g, "generation")
        model_must_hold(g2, "generation")
        arows = dedupe_auto(g.rows + g2.rows)
        fa = scratch_file("c01auto.ndjson")
        write_rows(arows, fa)
        try:
            ares, _ = run_harness("replay-auto", ["-cases", fa, "-seed", seed, "-pacings", "0,1,2,3"], timeout=3000)
        finally:
            os.unlink(fa)
        tool_errors(ares["mismatches"])
        for m in tagged(ares["mismatches"], prop):
            m["replay_sub"] = "replay-auto"
            mine.append(m)
        cov["auto_refresh_histories"] = ares["evaluations"]
        cov["evaluations"] += ares["evaluations"]
        cov["traces_validated_against_impl"] += ares["evaluations"]
        cov["distinct_nontrivial"] += ares["distinct_nontrivial"]
        cov["rule"] += "; plus seeded histories of spec/CacheAuto.tla on a real auto-refresh cache (free-running, recorded-schedule and watcher-held pacings), polled until equal to a fresh cache and to the model"
    if prop == "C01":
        # unbounded in the directory list: the scan (slot, conflicts set, F5 repair) computes the precedence rule for
        # ARBITRARY integer priorities - an inductive invariant discharged by Apalache; with the F5 defect the step fails
        ap = parallel(lambda: vlib.run_apalache("ScanInd", "CInit", "Init", "IndInv", 0),
                      lambda: vlib.run_apalache("ScanInd", "CInit", "IndInit", "IndInv", 1),
                      lambda: vlib.run_apalache("ScanInd", "CInit", "IndInit", "AtEnd", 0),
                      lambda: vlib.run_apalache("ScanInd", "CInitBug", "IndInit", "IndInv", 1))
        if ap[:3] != ["ok", "ok", "ok"]:
            raise ToolFailure("SPEC-DRIFT: the inductive invariant of spec/ScanInd.tla does not hold: %s" % ap)
        if ap[3] != "violated":
            raise ToolFailure("vacuous: ScanInd's induction step holds even with the F5 defect")
        cov["inductive_invariant"] = ("spec/ScanInd.tla, Apalache: Init => IndInv; IndInv /\\ Next => IndInv'; IndInv => AtEnd (index = declarative rule when "
                                      "the scan is complete) over 6 abstract files with arbitrary integer priorities (any number and order of "
                                      "directories); with BUG_F5 the induction step is refuted")
    if prop in ("C01", "C13"):
        # "unreadable" files and directories (EACCES): the populations and histories of the permission universe,
        # replayed by a harness process that has given up root so that file modes are enforced
        pr = parallel(lambda: run_tlc("MCCacheSeq", "CacheSeq_perm0.cfg", deadlock=True, timeout=3000, workers=4),
                      lambda: run_tlc("MCCacheSeq", "CacheSeq_permsim.cfg", deadlock=True, timeout=3000, workers=4,
                                      simulate="num=%d" % (100 if tier == "quick" else 1500), depth=9, seed=seed))
        for g in pr:
            model_must_hold(g, "permission universe")
        prows = pr[0].rows + pr[1].rows
        if not prows:
            raise ToolFailure("vacuous: no behaviour of the permission universe")
        # the unprivileged process must be able to read the cases: not below a private directory
        pdir = vlib.mkscratch("perm-cases")
        os.chmod(pdir, 0o755)
        fp = os.path.join(pdir, "cases.ndjson")
        write_rows(prows, fp)
        os.chmod(fp, 0o644)
        try:
            pres, _ = run_harness("replay-cache", ["-cases", fp, "-seed", seed], env_extra={"VERIF_UID": "65534"} if os.geteuid() == 0 else None)
        finally:
            import shutil
            shutil.rmtree(pdir, ignore_errors=True)
        tool_errors(pres["mismatches"])
        mine += tagged(pres["mismatches"], prop)
        cov["unreadable_file_and_directory_rows"] = pres["evaluations"]
        cov["states"] += pr[0].distinct
        cov["transitions"] += pr[0].generated
        for k in ("evaluations", "traces_validated_against_impl", "distinct_nontrivial", "steps_replayed"):
            cov[k] += pres[{"steps_replayed": "steps"}.get(k, k if k != "traces_validated_against_impl" else "evaluations")]
        cov["rule"] += ("; plus the permission universe (directories readable / mode 000 / missing, files valid / mode 000 / malformed; chmod as a "
                        "history operation), every population exhaustively and seeded histories of 8 operations, replayed by a process running as uid 65534")
    if prop == "C13":
        # the same statement on a cache in automatic refresh mode, Refresh() being the first operation after a repair
        ares2, _ = run_harness("auto-errors", ["-seed", seed], timeout=600)
        tool_errors(ares2["mismatches"])
        for m in tagged(ares2["mismatches"], prop):
            m["replay_sub"] = "auto-errors"
            mine.append(m)
        cov["evaluations"] += ares2["evaluations"]
        cov["distinct_nontrivial"] += ares2["distinct_nontrivial"]
        cov["auto_mode_explicit_refresh_scenarios"] = ares2["evaluations"]
        cov["rule"] += "; plus 4 scenarios on an auto-refresh cache: a directory missing / below a regular file at set-up, listed first / last, repaired with a failing and a good file; Refresh() first, then the file repaired"
    if prop == "C16":
        # the naming half: generated transient names and the write/refresh/remove cycle under them
        nm = generic_replay(prop, tier, seed, [("SpecName", "SpecName_quick.cfg", {})] + ([("SpecName", "SpecName_thorough.cfg", {})] if tier == "thorough" else []),
                            "oracle-specname", "model_checking", "", [])
        for m in nm["mismatches"]:
            m["replay_sub"] = "oracle-specname"
        mine += nm["mismatches"]
        nc = nm["coverage"]
        for k in ("states", "transitions", "traces_validated_against_impl", "evaluations", "distinct_nontrivial", "steps_replayed"):
            cov[k] += nc[k]
        cov["specname_rows"] = nc["evaluations"]
        cov["rule"] += "; plus every transient id of <=3/<=5 tokens ('/', '.', '..', '.json', '.yaml', blank, non-ASCII, a filler that brings the file name to NAME_MAX = 255 bytes) x 4 kinds (dotted class, class ending in .json/.yaml): generated name, single-component check, WriteSpec tree diff, encoding, precedence after Refresh, RemoveSpec twice"
        cov["checker_cmd"] += " ; " + nc["checker_cmd"]
    return {"level": "model_checking", "coverage": cov, "mismatches": mine, "replay_with": "replay-cache",
            "n_violations_total": None,
            "assumptions": ["small-scope universe: <=3 directories, <=3 Spec names, 2 devices, 2-3 kinds",
                            "abstraction function ViewOf (harness/cachereplay.go observe) is trusted; selftest perturbs it",
                            "model invariants PrecedenceOK/IsolationOK/WriteWins hold in the exhaustive configuration (checked this run)"]}


def selftest_lin():
    import copy
    ok = True
    # 4. linearizability traces (C12): a recorded concurrent execution is accepted; the same log with one returned
    #    version changed, with a completed Refresh of the manual cache removed, or with a rename removed is rejected
    import lintrace
    ldir = vlib.mkscratch("selftest-lin")
    try:
        run_harness("lin", ["-seed", 5, "-traces", 1, "-events", 400, "-out", ldir])
        t = [json.loads(l) for l in open(os.path.join(ldir, os.listdir(ldir)[0])).read().split("\n") if l.strip()]
    finally:
        shutil.rmtree(ldir, ignore_errors=True)
    good = lintrace.validate_events(t, "selftest-lin")[0]
    print("selftest linearizability: recorded execution accepted: %s" % good)
    ok &= good
    call = {}
    cands = []
    for i, e in enumerate(t):
        if e["e"] == "call":
            call[e["t"]] = (i, e)
        elif e["e"] == "ret" and call.get(e["t"]):
            cands.append((call[e["t"]][0], i, call[e["t"]][1]))
    k = max(i for (_, i, c) in cands if c["c"] == "manual" and c["op"] in ("GetDevice", "ListDevices", "InjectDevices") and t[i]["v"] > 1)
    c1 = copy.deepcopy(t)
    c1[k]["v"] -= 1
    # without the manual cache's Refresh calls its queries would have to keep showing version 1
    dropped = set()
    for (ci, ri, c) in cands:
        if c["c"] == "manual" and c["op"] == "Refresh":
            dropped |= {ci, ri}
    c2 = [e for i, e in enumerate(t) if i not in dropped]
    vmax = max(e["v"] for e in t if e["e"] == "ret")
    c3 = [e for e in t if not (e["e"] in ("swb", "swe") and e["v"] == vmax)]
    for name, c in (("one returned version changed", c1), ("the Refresh calls of the manual cache removed", c2), ("the newest observed rename removed", c3)):
        good = not lintrace.validate_events(c, "selftest-lin")[0]
        print("selftest linearizability: %s -> rejected: %s" % (name, good))
        ok &= good
    return ok


def selftest():
    """Binding demonstrations: the model must find the seeded defects, the replay must go red
    when an expected value is corrupted."""
    ok = True
    # 1. the two repaired defects, re-introduced in the model, must violate its invariants
    for flag, inv in (("BUG_F5", "PrecedenceOK"), ("BUG_F6", "PrecedenceOK")):
        cfg = open(os.path.join(vlib.SPEC, "CacheSeq_mc_quick.cfg")).read().replace("%s = FALSE" % flag, "%s = TRUE" % flag)
        r = run_tlc("MCCacheSeq", "selftest.cfg", deadlock=True, timeout=600, keep={"selftest.cfg": cfg})
        good = inv in r.violated
        print("selftest model %s=TRUE -> %s violated: %s" % (flag, inv, good))
        ok &= good
    # 1b. protocols that break atomic publication must violate the invariants of SpecWrite
    for flag in ("BUG_INPLACE", "BUG_TMPEXT", "BUG_FIXEDTMP"):
        cfg = open(os.path.join(vlib.SPEC, "SpecWrite.cfg")).read().replace("%s = FALSE" % flag, "%s = TRUE" % flag)
        r = run_tlc("SpecWrite", "selftest.cfg", deadlock=True, timeout=600, keep={"selftest.cfg": cfg})
        good = bool(r.violated)
        print("selftest model SpecWrite %s=TRUE -> %s violated: %s" % (flag, ",".join(r.violated) or "nothing", good))
        ok &= good
    # 1c. every repair of the auto-refresh cache, switched off in the model, must give a counter-example
    for cfgname, flag, repl in (("CacheAuto_quick.cfg", "FIX_CREATE", []), ("CacheAuto_quick.cfg", "FIX_SCANWATCHED", [("MaxFsOps = 4", "MaxFsOps = 5")]),
                                ("CacheAuto_away.cfg", "FIX_RENAMEDIR", []), ("CacheAuto_overflow.cfg", "FIX_OVERFLOW", []),
                                ("CacheAuto_confq.cfg", "FIX_STALE", [("MaxFsOps = 2", "MaxFsOps = 3")]), ("CacheAuto_confshort.cfg", "FIX_RETRY", [])):
        cfg = open(os.path.join(vlib.SPEC, cfgname)).read().replace("%s = TRUE" % flag, "%s = FALSE" % flag)
        for a, b in repl:
            cfg = cfg.replace(a, b)
        r = run_tlc("CacheAuto", "selftest.cfg", timeout=1800, keep={"selftest.cfg": cfg}, workers=8)
        good = bool(r.violated)
        print("selftest model CacheAuto %s=FALSE (%s) -> %s violated: %s" % (flag, cfgname, ",".join(r.violated) or "nothing", good))
        ok &= good
    # 2. corrupt one expected field of one row: the replay must report it
    g = run_tlc("MCCacheSeq", "CacheSeq_q0.cfg", deadlock=True, timeout=600)
    row = next(r for r in g.rows if r["hist"][0]["view"]["devs"])
    row["hist"][0]["view"]["devs"][0]["p"] += 1
    f = scratch_file("selftest.ndjson")
    write_rows([row], f)
    res, _ = run_harness("replay-cache", ["-cases", f])
    os.unlink(f)
    good = res["n_mismatch"] > 0
    print("selftest replay with corrupted expectation -> mismatch reported: %s" % good)
    ok &= good
    # 3. trace validation (code -> spec): a recorded execution is accepted; the same trace with a corrupted
    #    snapshot, with one hook's entries removed, or with another file content written is rejected
    import autotrace, shutil, copy
    g = run_tlc("CacheAuto", "CacheAuto_gen1.cfg", timeout=600, simulate="num=10", depth=40, seed=3, workers=2, deadlock=True)
    rows = dedupe_auto(g.rows)[:6]
    f = scratch_file("selftest-auto.ndjson")
    tdir = vlib.mkscratch("selftest-traces")
    write_rows(rows, f)
    try:
        run_harness("replay-auto", ["-cases", f, "-trace-dir", tdir, "-pacings", "1"], timeout=600)
        traces = [json.load(open(os.path.join(tdir, x)))["events"] for x in sorted(os.listdir(tdir))]
    finally:
        os.unlink(f)
        shutil.rmtree(tdir, ignore_errors=True)
    snap = lambda e: e["ev"] in ("op", "scanned") and any(v for v in e["st"]["idx"].values())
    t = next((t for t in traces if any(snap(e) for e in t)), None)
    if t is None:
        print("selftest trace validation: no recorded trace with a non-empty snapshot")
        return 1
    good = autotrace.validate(t, "selftest")[0]
    print("selftest trace validation: recorded execution accepted: %s" % good)
    ok &= good
    k = max(i for i, e in enumerate(t) if snap(e))
    c1 = copy.deepcopy(t)
    d0 = next(d for d, v in c1[k]["st"]["idx"].items() if v)
    c1[k]["st"]["idx"][d0] = 3 - c1[k]["st"]["idx"][d0]
    c2 = [e for e in t if not (e["ev"] == "fs" and e["a"] in ("createwrite", "rewrite", "movein", "renamewithin"))]
    c3 = copy.deepcopy(t)
    for e in c3:
        if e["ev"] == "fs" and e["c"]:
            e["c"] = 3 - e["c"]
    for name, c in (("corrupted snapshot", c1), ("file-system entries removed", c2), ("other content written", c3)):
        good = not autotrace.validate(c, "selftest")[0]
        print("selftest trace validation: %s -> rejected: %s" % (name, good))
        ok &= good
    ok &= selftest_lin()
    return 0 if ok else 1


# ---------------------------------------------------------------------------------------
# family: edits (C02 C03 C14) - spec/Edits.tla EditsApply.tla EditsInject.tla

def generic_replay(prop, tier, seed, runs, sub, level, rule, assumptions, mc_index=0, extra_cov=None):
    """runs: list of (module, cfg, kwargs) TLC runs; all rows are replayed with harness `sub`.
    The run at mc_index provides the states/transitions figures."""
    vlib.build_harness()
    rs = parallel(*[(lambda m=m, c=c, kw=kw: run_tlc(m, c, deadlock=True, timeout=3000, **kw)) for (m, c, kw) in runs])
    for r, (m, c, kw) in zip(rs, runs):
        model_must_hold(r, c)
    rows = [row for r in rs for row in r.rows]
    if not rows:
        raise ToolFailure("vacuous: TLC emitted no case")
    f = scratch_file("%s.ndjson" % sub)
    write_rows(rows, f)
    try:
        res, err = run_harness(sub, ["-cases", f, "-seed", seed])
    finally:
        os.unlink(f)
    tool_errors(res["mismatches"])
    mine = tagged(res["mismatches"], prop)
    states = sum(r.distinct for r in rs)
    trans = sum(r.generated for r in rs)
    cov = {"states": max(states, 1), "transitions": max(trans, 1),
           "traces_validated_against_impl": res["evaluations"],
           "evaluations": res["evaluations"], "distinct_nontrivial": res["distinct_nontrivial"],
           "steps_replayed": res["steps"], "rule": rule,
           "exhaustive": all("simulate" not in kw for (_, _, kw) in runs),
           "samples": [rows[len(rows) // 3]],
           "tlc_runs": [{"module": m, "cfg": c, "mode": "simulate" if "simulate" in kw else "exhaustive",
                         "distinct_states": r.distinct, "generated": r.generated, "rows": len(r.rows), "wall_s": round(r.wall, 1)}
                        for r, (m, c, kw) in zip(rs, runs)],
           "checker_cmd": "tlc " + " ; tlc ".join("%s -config %s" % (m, c) for (m, c, kw) in runs) + " ; harness " + sub}
    if extra_cov:
        cov.update(extra_cov)
    return {"level": level, "coverage": cov, "mismatches": mine, "replay_with": sub, "assumptions": assumptions,
            "all_mismatches": res["mismatches"]}


EDITS_ASSUME = ["the oracle Apply/Compose (spec/Edits.tla) is a transcription of SPEC.md and the property statement; its own invariants "
                "EnvOK/NodesOK/MountsOK/RestOK/OriginsOK are checked by TLC in the same run",
                "env is compared as the effective map (last entry for a name wins); device nodes as a set keyed by path; "
                "additional GIDs as prefix + set; cgroup rules, mounts and hooks as exact sequences; everything else by digest",
                "host device nodes are real nodes made with mknod in a scratch directory (needs root)"]


@check("C03")
def c03(prop, tier, seed):
    if tier == "quick":
        runs = [("MCEdits", "Edits_quick.cfg", {}),
                ("MCEdits", "Edits_sim.cfg", dict(simulate="num=150", depth=8, seed=seed, workers=4))]
    else:
        runs = [("MCEdits", "Edits_thorough.cfg", {}),
                ("MCEdits", "Edits_sim.cfg", dict(simulate="num=6000", depth=8, seed=seed, workers=8))]
    return generic_replay(prop, tier, seed, runs, "replay-edits", "model_checking",
                          "every edit list of <=2 (quick) / <=3 (thorough) atomic edits from a universe of 31 atoms x 6 initial OCI specs x 3 host "
                          "device tables (exhaustive), plus seeded random lists of 7 atoms; each row carries Apply's expected result and is run "
                          "through ContainerEdits.Apply and, for a seeded share, Device.ApplyEdits / Spec.ApplyEdits of a Spec file holding the edits. "
                          "non-trivial = at least one atom", EDITS_ASSUME)


@check("C02")
def c02(prop, tier, seed):
    if tier == "quick":
        runs = [("MCInject", "Inject_quick.cfg", {}), ("MCInject", "Inject_c14_quick.cfg", {}),
                ("MCInject", "Inject_sim.cfg", dict(simulate="num=20", depth=7, seed=seed, workers=4))]
    else:
        runs = [("MCInject", "Inject_thorough.cfg", {}), ("MCInject", "Inject_c14_quick.cfg", {}),
                ("MCInject", "Inject_sim.cfg", dict(simulate="num=400", depth=7, seed=seed, workers=8))]
    return generic_replay(prop, tier, seed, runs, "replay-inject", "model_checking",
                          "32 cache populations (5 Spec files present/absent: two files of one kind, a shadowing file, a second vendor, a "
                          "same-directory conflict) x every ordered selection of <=3 (quick) / <=4 distinct resolvable devices x 2 initial OCI "
                          "specs, exhaustive; expected = Apply(oci, Compose(request)) with resolution by the precedence rule; plus seeded random "
                          "histories of 6 injections. non-trivial = request of >= 2 devices", EDITS_ASSUME)


@check("C14")
def c14(prop, tier, seed):
    if tier == "quick":
        runs = [("MCInject", "Inject_c14_quick.cfg", {}),
                ("MCEdits", "Edits_quick.cfg", {})]
        subs = ["replay-inject", "replay-edits"]
    else:
        runs = [("MCInject", "Inject_c14_quick.cfg", {}),
                ("MCInject", "Inject_sim.cfg", dict(simulate="num=800", depth=7, seed=seed, workers=8)),
                ("MCEdits", "Edits_thorough.cfg", {})]
        subs = ["replay-inject", "replay-inject", "replay-edits"]
    outs = []
    # two harness sub-commands: histories through the cache, and direct Apply on edit structs
    a = generic_replay(prop, tier, seed, [r for r, s in zip(runs, subs) if s == "replay-inject"], "replay-inject", "model_checking",
                       "histories inject / change host nodes / inject (exhaustive over 3 populations, requests of <=2 devices, 3 host tables; "
                       "thorough adds random histories of 6 steps): after every step the JSON image of every cached Spec and device must be "
                       "unchanged, every injection must equal the model's result for the *current* host table, and every cached Spec must be "
                       "writable again at the end; plus every C03 row: Apply must leave the edits it was given untouched. non-trivial = request of >= 2 devices / >= 1 atom",
                       EDITS_ASSUME)
    b = generic_replay(prop, tier, seed, [r for r, s in zip(runs, subs) if s == "replay-edits"], "replay-edits", "model_checking", "", EDITS_ASSUME)
    a["mismatches"] += b["mismatches"]
    ca, cb = a["coverage"], b["coverage"]
    for k in ("states", "transitions", "traces_validated_against_impl", "evaluations", "distinct_nontrivial", "steps_replayed"):
        ca[k] += cb[k]
    ca["tlc_runs"] += cb["tlc_runs"]
    ca["checker_cmd"] += " ; " + cb["checker_cmd"]
    return a


# ---------------------------------------------------------------------------------------
# family: decision procedures on strings (C07 C15) - spec/QName*.tla, spec/Annotations.tla

@check("C07")
def c07(prop, tier, seed):
    if tier == "quick":
        runs = [("QNameStrings", "QNameStrings_quick.cfg", {}), ("QNameStrings", "QNameStrings_boundary.cfg", {}),
                ("QNameParts", "QNameParts_quick.cfg", {}), ("QNameParts", "QNameParts_valid.cfg", {})]
    else:
        runs = [("QNameStrings", "QNameStrings_thorough.cfg", {}), ("QNameStrings", "QNameStrings_boundaryT.cfg", {}),
                ("QNameParts", "QNameParts_thorough.cfg", {}), ("QNameParts", "QNameParts_validT.cfg", {})]
    out = generic_replay(prop, tier, seed, runs, "oracle-qname", "model_checking",
                         "every string of length <=4 (quick) / <=5 over a 13-symbol alphabet and <=3 / <=4 over the 20-symbol boundary alphabet "
                         "(neighbours of the letter/digit ranges, control byte, non-ASCII rune, separators in every position); every "
                         "vendor/class=name composed of parts ranging over all short strings; each row evaluated on ParseQualifiedName, "
                         "IsQualifiedName, ParseDevice, QualifiedName and the three validators, in the canonical spelling and two seeded "
                         "class-preserving spellings (other letters/digits/runes/control bytes, a long alphanumeric filler). non-trivial = "
                         "the string splits into three parts or is itself a valid vendor/class/device name",
                         ["the grammar (spec/QName.tla) is a transcription of the property statement; RoundTrip/FailContract/PartsValid/"
                          "ComposeParse/OnlyValid are checked by TLC on the oracle itself",
                          "strings beyond the enumerated lengths are reached only through class-preserving substitution and fillers"])
    acc = sum(1 for r in out.get("rows_cache", []) if r)
    return out


@check("C15")
def c15(prop, tier, seed):
    if tier == "quick":
        runs = [("MCAnnotations", "Annotations_quick.cfg", {}),
                ("MCAnnotations", "Annotations_sim.cfg", dict(simulate="num=400", depth=4, seed=seed, workers=4))]
    else:
        runs = [("MCAnnotations", "Annotations_quick.cfg", {}), ("MCAnnotations", "Annotations_thorough.cfg", dict(workers=8)),
                ("MCAnnotations", "Annotations_sim.cfg", dict(simulate="num=40", depth=4, seed=seed, workers=8))]
    return generic_replay(prop, tier, seed, runs, "replay-annot", "model_checking",
                          "annotation-map state machine: 5 initial maps (nil, empty, foreign keys, a used CDI key, a CDI key with an unqualified "
                          "device after two good ones) x every update from 16 plugin names x 15 device ids (lengths 61..64 around the limit, every "
                          "character class first/middle/last - ASCII classes, non-ASCII letters and digits - '/', ':') x 8 device lists, sequences of 1 (quick, exhaustive), "
                          "2 (thorough, exhaustive over a core universe of 6 x 6 x 4) and 3 (random) updates, then ParseAnnotations. The code may refuse more than the model (counted, "
                          "not a violation); accepting what the rule forbids, touching the map on failure, an illegal key, a value that does not "
                          "parse back, or non-empty results with a parse error are violations. non-trivial = at least one update succeeded",
                          ["legality of a key is decided by an independent regular-expression transcription of the Kubernetes rule in the harness "
                           "and by K8sNameR in the model", "device strings are drawn from a pool of 8 (3 qualified, 5 not)"])


# ---------------------------------------------------------------------------------------
# family: documents (C05 C06) - spec/SpecDoc.tla SpecDocGen.tla, harness oracle-doc

@check("C05", "C06")
def specdoc(prop, tier, seed):
    if tier == "quick":
        runs = [("MCSpecDoc", "SpecDoc_quick.cfg", {}),
                ("MCSpecDoc", "SpecDoc_sim.cfg", dict(simulate="num=3", depth=4, seed=seed, workers=4))]
    else:
        runs = [("MCSpecDoc", "SpecDoc_thorough.cfg", {}),
                ("MCSpecDoc", "SpecDoc_sim.cfg", dict(simulate="num=40", depth=4, seed=seed, workers=8))]
    return generic_replay(prop, tier, seed, runs, "oracle-doc", "model_checking",
                          "base documents (minimal; two devices with every kind of edit twice and annotations on both levels; three devices "
                          "first/middle/last; 0.7.0 features in the middle device) and every document one slot away from a base: each slot "
                          "(version, kind, annotations, device name, first/last element of every edit list, RDT, unknown member, form of the "
                          "devices member, presence of containerEdits, list emptied/extended, device dropped) set to every token of its class, "
                          "well-formed or defective (exhaustive), plus seeded random documents up to three changes away. Each document is "
                          "rendered as JSON and YAML and pushed through ReadSpec/ParseSpec, a cache refresh next to a good neighbour file, and "
                          "WriteSpec; well-formed ones also through MinimumRequiredVersion/ValidateVersion under every device permutation",
                          ["the admission rule and the required-version rule (spec/SpecDoc.tla) are transcriptions of SPEC.md and the property "
                           "statements; BasesAdmissible/OrderFree/Bounds are checked by TLC",
                           "scalars of the wrong JSON type in string slots, 'v'-prefixed versions and duplicate keys are not generated (statement silent)",
                           "tokens are rendered by harness/specdoc.go; one concrete spelling per token"])


# ---------------------------------------------------------------------------------------
# C10: atomic publication - spec/SpecWrite.tla (protocol), spec/FSTrace.tla (trace validation)

def fstrace_validate(events):
    """events: concatenated FSTrace events (with reset markers).  Returns TLCResult."""
    f = scratch_file("fstrace.ndjson")
    write_rows(events, f)
    try:
        return run_tlc("FSTrace", "FSTrace.cfg", env_extra={"TRACE": f}, workers=1, timeout=900)
    finally:
        os.unlink(f)


@check("C10")
def c10(prop, tier, seed):
    import strace2ndjson, shutil, tempfile
    vlib.build_harness()
    # 1. the protocol model: every interleaving of writer(s), crash, failures and scanner
    cfgs = ["SpecWrite.cfg", "SpecWrite_new.cfg"] + (["SpecWrite_3w.cfg"] if tier == "thorough" else [])
    mcs = parallel(*[(lambda c=c: run_tlc("SpecWrite", c, deadlock=True, timeout=1800, workers=4)) for c in cfgs])
    for r, c in zip(mcs, cfgs):
        model_must_hold(r, c)
    # 2. the real writer: pause / crash / failing writes / strace / stress
    sdir = vlib.mkscratch("strace")
    try:
        res, err = run_harness("writer", ["-seed", seed, "-tier", tier, "-strace-dir", sdir,
                                          "-stress", "20s" if tier == "thorough" else "3s"], timeout=3000)
        tool_errors(res["mismatches"])
        mism = tagged(res["mismatches"], prop)
        index = json.load(open(os.path.join(sdir, "index.json")))
        events, ntr, problems = [], 0, []
        per_trace = []
        for rec in index:
            ev, pr = strace2ndjson.convert(rec["file"], rec["dir"], rec["newlen"], rec["oldlen"], rec["target"])
            problems += pr
            if len(ev) <= 2:
                raise ToolFailure("strace trace %s has no file-system event (strace not working?)" % rec["file"])
            per_trace.append((rec, ev))
            events += ev
            ntr += 1
        tr = fstrace_validate(events)
        if tr.violated:
            # find the offending trace by validating them one by one
            for rec, ev in per_trace:
                one = fstrace_validate(ev)
                if one.violated:
                    mism.append({"what": "trace-violates-" + ",".join(one.violated), "props": [prop], "case": rec["file"], "step": -1,
                                 "want": "every state of the system-call trace shows only complete old/new content under Spec names",
                                 "got": [e for e in ev][:40], "row": rec["scenario"], "note": "\n".join(one.trace[:40])})
        elif "TraceAccepted" in tr.raw_tail and "violated" in tr.raw_tail:
            raise ToolFailure("SPEC-DRIFT: the trace specification could not consume a real trace\n" + tr.raw_tail[-1500:])
        cov = {"states": sum(r.distinct for r in mcs) + tr.distinct, "transitions": sum(r.generated for r in mcs) + tr.generated,
               "traces_validated_against_impl": ntr, "trace_events": len(events),
               "evaluations": res["evaluations"], "distinct_nontrivial": res["distinct_nontrivial"],
               "hook_points_observed": res.get("extra", {}).get("hook_points_seen"), "stress_reads": res.get("extra", {}).get("stress_reads"),
               "stress_writes": res.get("extra", {}).get("stress_writes"),
               "rule": "protocol model: TLC explores every interleaving of 2 (thorough: 3) writers with a crash at every step, failure of create / "
                       "write at every chunk / rename, and a scanner whose open and read are separate steps, with and without a previous file. "
                       "Real code, for json/yaml x fresh/overwrite (x 3 sizes in thorough): the directory is inspected (byte comparison with the "
                       "complete old/new file + a real cache scan) at every write.* hook point, after SIGKILL at every point, after a write failing "
                       "at every 7th (thorough: every) offset via RLIMIT_FSIZE; strace traces of a successful and two failing writes are validated "
                       "by TLC against the generic FSTrace specification with the invariants evaluated in every state; a writer/reader stress. "
                       "every scenario is non-trivial",
               "samples": [json.loads(res["samples"][0]) if isinstance(res["samples"][0], str) else res["samples"][0], events[:12]],
               "exhaustive": True, "strace_problems": problems[:5],
               "checker_cmd": "tlc SpecWrite ; harness writer ; tlc FSTrace (TRACE=<strace events>)"}
        return {"level": "model_checking", "coverage": cov, "mismatches": mism, "replay_with": "",
                "assumptions": ["crash = death of the writer process; durability across power loss is not claimed by the property",
                                "strace's decoding and tools/strace2ndjson.py are trusted for the trace binding; the hook-point inspection is an independent second reading",
                                "write failures are injected with RLIMIT_FSIZE (EFBIG), standing in for ENOSPC/EDQUOT/EIO"]}
    finally:
        shutil.rmtree(sdir, ignore_errors=True)


# ---------------------------------------------------------------------------------------
# family: auto-refresh (C11 C20) - spec/CacheAuto.tla, harness replay-auto

import re as _re
_LABEL = _re.compile(r"^State \d+: <(\w+)(?:\((.*?)\))? line")


def trace_to_row(trace_lines, init_dirs, init_exists):
    """Turns the action labels of a TLC counter-example into a behaviour row for replay-auto."""
    hist = [{"a": "init", "d": "", "n": "", "c": 0, "w": 1, "nd": init_dirs, "na": True, "ex": init_exists}]
    names = {"CreateWrite": "createwrite", "Rewrite": "rewrite", "RenameWithin": "renamewithin", "MoveIn": "movein", "MoveOut": "moveout",
             "RemoveFile": "removefile", "Rmdir": "rmdir", "Mkdir": "mkdir", "RenameDirAway": "renamediraway", "ReaderRead": "read", "ReaderFetch": "fetch",
             "GorRecv": "recv", "GorExit": "exit", "GorHandle": "handle", "GorScan": "scan", "Query": "query", "Configure": "configure", "Shortage": "shortage"}
    for l in trace_lines:
        m = _LABEL.match(l)
        if not m or m.group(1) not in names:
            continue
        a = names[m.group(1)]
        args = [x.strip().strip('"') for x in (m.group(2) or "").split(",")] if m.group(2) else []
        e = {"a": a, "d": "", "n": "", "c": 0, "w": 0, "nd": [], "na": False}
        if a in ("createwrite", "rewrite"):
            e["d"], e["n"], e["c"] = args[0], args[1], int(args[2])
        elif a == "movein":
            e["d"], e["c"] = args[0], int(args[1])
        elif a == "removefile":
            e["d"], e["n"] = args[0], args[1]
        elif a in ("renamewithin", "moveout", "rmdir", "mkdir", "renamediraway"):
            e["d"] = args[0]
        elif a in ("read", "fetch", "recv", "exit", "handle", "scan"):
            e["w"] = int(args[0])
        elif a == "configure":
            mm = _re.match(r"\{(.*)\},\s*(TRUE|FALSE)", m.group(2))
            e["nd"] = [x.strip().strip('"') for x in mm.group(1).split(",") if x.strip()]
            e["na"] = mm.group(2) == "TRUE"
        hist.append(e)
    hist.append({"a": "query", "d": "", "n": "", "c": 0, "w": 0, "nd": [], "na": False})
    return {"hist": hist, "cdirs": init_dirs, "auto": True, "fresh": {}, "missing": [], "directed": True}


def directed_schedules(base_cfg, toggles):
    """The schedules TLC finds when one repair is switched off, as directed behaviours: the real
    code (which has the repair) must converge on each of them."""
    base = open(os.path.join(vlib.SPEC, base_cfg)).read()
    rows = []
    found = {}
    for flag, repl in toggles:
        cfg = base.replace("%s = TRUE" % flag, "%s = FALSE" % flag)
        for a, b in repl:
            cfg = cfg.replace(a, b)
        r = run_tlc("CacheAuto", "directed.cfg", timeout=900, keep={"directed.cfg": cfg}, workers=8)
        found[flag] = list(r.violated)
        if not r.violated:
            raise ToolFailure("selftest: the model no longer finds a counter-example with %s = FALSE" % flag)
        # initial state: first state of the trace
        txt = "\n".join(r.trace)
        ex = _re.search(r"exists = (\[.*?\]|\(.*?\))", txt)
        init_exists = [d for d, v in _re.findall(r'"?(\w+)"? (?:\|->|:>) (TRUE|FALSE)', ex.group(1))] if ex else []
        init_exists = [d for d, v in _re.findall(r'"?(\w+)"? (?:\|->|:>) (TRUE|FALSE)', ex.group(1)) if v == "TRUE"] if ex else []
        cd = _re.search(r"cdirs = \{(.*?)\}", txt)
        init_dirs = [x.strip().strip('"') for x in cd.group(1).split(",") if x.strip()] if cd else ["A"]
        rows.append(trace_to_row(r.trace, init_dirs, init_exists))
    return rows, found


def _act(a, d="", n="", c=0):
    return {"a": a, "d": d, "n": n, "c": c, "w": 1 if a in ("read", "fetch", "recv", "handle", "scan") else 0, "nd": [], "na": False}


def pinned_auto_rows():
    """Behaviours of CacheAuto written down by hand because random generation meets them only sometimes
    (each recorded execution is validated against the specification like any other):
    1. the Remove of the last file and the Remove of its directory queued back to back while the goroutine
       waits for the mutex with the first one; the directory comes back with a file afterwards"""
    h = [{"a": "init", "d": "", "n": "", "c": 0, "w": 1, "nd": ["A"], "na": True, "ex": ["A"]},
         _act("createwrite", "A", "f.json", 1), _act("read"), _act("fetch"), _act("recv"), _act("handle"), _act("scan"),
         _act("fetch"), _act("recv"), _act("handle"), _act("scan"), _act("query"),
         _act("removefile", "A", "f.json"), _act("rmdir", "A"), _act("read"), _act("fetch"), _act("recv"), _act("fetch"),
         _act("handle"), _act("scan"), _act("recv"), _act("handle"), _act("scan"),
         _act("mkdir", "A"), _act("createwrite", "A", "f.json", 2), _act("query"), _act("query")]
    return [{"hist": h, "cdirs": ["A"], "auto": True, "fresh": {"A": 2}, "missing": [], "directed": True}]


def dedupe_auto(rows):
    """behaviours that differ only in where queries fall are one behaviour for the free-running
    pacing; keep one per controllable projection + schedule"""
    seen = {}
    for r in rows:
        key = json.dumps([(a["a"], a["d"], a["n"], a["c"], a.get("nd"), a.get("na")) for a in r["hist"] if a["a"] != "query"])
        seen.setdefault(key, r)
    return list(seen.values())


def auto_family(prop, tier, seed, mc_cfgs, gen_runs, directed, extra_rule):
    vlib.build_harness()
    thunks = [(lambda c=c: run_tlc("CacheAuto", c, timeout=3000, workers=6)) for c in mc_cfgs]
    thunks += [(lambda c=c, n=n, d=d: run_tlc("CacheAuto", c, timeout=1800, simulate="num=%d" % n, depth=d, seed=seed, workers=4, deadlock=True))
               for (c, n, d) in gen_runs]
    rs = parallel(*thunks)
    mcs, gens = rs[:len(mc_cfgs)], rs[len(mc_cfgs):]
    for r, c in zip(mcs, mc_cfgs):
        model_must_hold(r, c)
    for r in gens:
        model_must_hold(r, "generation")
    rows = dedupe_auto([row for g in gens for row in g.rows])
    drows, found = [], {}
    for base, toggles in directed:
        dr, f = directed_schedules(base, toggles)
        drows += dr
        found.update(f)
    if not rows:
        raise ToolFailure("vacuous: no behaviour generated")
    # every directed schedule twice: the harness runs odd-numbered rows in the world where "missing" is ENOTDIR
    drows = [r for r in drows + pinned_auto_rows() for _ in (0, 1)]
    allrows = drows + rows
    import autotrace, shutil
    f = scratch_file("auto.ndjson")
    tdir = vlib.mkscratch("autotrace")
    write_rows(allrows, f)
    trace_stats = {"traces": 0, "accepted": 0, "events": 0, "states": 0}
    trace_mism = []
    try:
        res, err = run_harness("replay-auto", ["-cases", f, "-seed", seed, "-trace-dir", tdir], timeout=3000)
        tool_errors(res["mismatches"])
        # binding B (code -> spec): the recorded executions (pacings 0 and 1) validated against CacheAutoTrace
        files = sorted(os.listdir(tdir))
        if tier == "quick" and len(files) > 90:
            import random
            rr = random.Random(seed)
            directed_first = [x for x in files if int(x.split("-")[1]) < len(drows)]
            rest = [x for x in files if x not in directed_first]
            rr.shuffle(rest)
            files = directed_first + rest[:90 - len(directed_first)]

        def one(fn):
            t = json.load(open(os.path.join(tdir, fn)))
            ok, r = autotrace.validate(t["events"], fn)
            return fn, t, ok, r
        with cf.ThreadPoolExecutor(max_workers=8) as ex:
            outs = list(ex.map(one, files))
        for fn, t, ok, r in outs:
            trace_stats["traces"] += 1
            trace_stats["events"] += len(t["events"])
            trace_stats["states"] += r.distinct
            if ok:
                trace_stats["accepted"] += 1
                continue
            # a rejected trace counts only if a second, independent recording of the same behaviour is rejected too
            d2 = vlib.mkscratch("autotrace2")
            try:
                run_harness("replay-auto", ["-cases", f, "-seed", seed + 1, "-only", t["case"], "-pacings", t["pacing"], "-trace-dir", d2], timeout=600)
                again = [json.load(open(os.path.join(d2, x))) for x in sorted(os.listdir(d2))]
            finally:
                shutil.rmtree(d2, ignore_errors=True)
            if again and not autotrace.validate(again[0]["events"], "again")[0]:
                # what only a gap in the environment model (kernel, fsnotify) explains is not the cache's fault: with an
                # environment that may deliver any event at any time every snapshot must still be explained
                if autotrace.validate(t["events"], "loose", loose_env=True)[0]:
                    trace_stats["explained_only_by_the_loose_environment_model"] = trace_stats.get("explained_only_by_the_loose_environment_model", 0) + 1
                    continue
                k = autotrace.longest_prefix(t["events"], "bisect")
                nxt = t["events"][k] if k < len(t["events"]) else None
                trace_mism.append({"what": "recorded-execution-not-a-behaviour-of-the-specification", "props": [prop], "case": t["case"], "step": t["pacing"],
                                   "want": "every hook event and state snapshot explained by an action of spec/CacheAuto.tla",
                                   "got": {"events_explained": k, "of": len(t["events"]), "first_unexplained_event": nxt, "recorded_trace": t["events"]},
                                   "note": json.dumps(t["events"][max(0, k - 6):k + 1])[:3000], "row": allrows[t["case"]]})
            else:
                trace_stats["rejected_once_accepted_on_rerecording"] = trace_stats.get("rejected_once_accepted_on_rerecording", 0) + 1
    finally:
        os.unlink(f)
        shutil.rmtree(tdir, ignore_errors=True)
    mine = tagged(res["mismatches"], prop) + trace_mism
    cov = {"states": sum(r.distinct for r in mcs), "transitions": sum(r.generated for r in mcs),
           "traces_validated_against_impl": res["evaluations"] + trace_stats["accepted"], "evaluations": res["evaluations"],
           "distinct_nontrivial": res["distinct_nontrivial"], "executions": res["steps"],
           "directed_schedules": found, "transient_failures": res.get("extra", {}).get("transient_failures", 0),
           "trace_validation": trace_stats,
           "tlc_runs": [{"cfg": c, "distinct_states": r.distinct, "generated": r.generated, "depth": r.depth, "wall_s": round(r.wall, 1),
                         "properties": "invariants + liveness under weak fairness"} for r, c in zip(mcs, mc_cfgs)],
           "rule": "TLC checks the CacheAuto state machine (file system, inotify queues, fsnotify reader, watcher goroutines with captured arguments, "
                   "Configure, queries) exhaustively for Converges/ErrConverges/Settles/Bounded/ConfigureFresh. Behaviours (seeded tlc -simulate, "
                   "de-duplicated by their controllable projection) and the counter-example schedules TLC finds when each repair is switched off in "
                   "the model are executed on a real auto-refresh cache over real inotify at three pacings (free-running; the recorded schedule "
                   "enforced through the watch.prelock gate; watcher held until the history ends), then the query API is polled until it equals a "
                   "fresh cache on the final directories (10 s; a violation needs 3 failing fresh executions). The free-running and the "
                   "schedule-following execution of every behaviour are also recorded through the hooks (file-system operations, events reaching "
                   "the watcher goroutine, state snapshots at the start of every critical section and at the end of the watcher's and "
                   "Configure's) and each trace is validated by TLC against spec/CacheAutoTrace.tla (accepted iff some behaviour of the model, "
                   "with silent delivery steps, consumes it; a rejection counts when a second recording is rejected too). " + extra_rule,
           "samples": [allrows[0], allrows[len(allrows) // 2]], "exhaustive": False,
           "checker_cmd": "tlc CacheAuto (" + ", ".join(mc_cfgs) + ") ; tlc -simulate (generation) ; harness replay-auto"}
    return {"level": "model_checking", "coverage": cov, "mismatches": mine, "replay_with": "replay-auto",
            "assumptions": ["inotify delivery and the fsnotify 1.5.1 reader are modelled from reading their code; on the real side they are the real kernel and library",
                            "timing: 10 s convergence window, 2 s resource settling; only the gate-enforced schedules are deterministic",
                            "small scope: <= 2 directories, one Spec name and one temporary name per directory, two contents"]}


def with_overflow(out, prop):
    """the kernel queue overflow, made real: a burst of ignored events while the watcher goroutine is held"""
    res, err = run_harness("overflow", [], timeout=600)
    tool_errors(res["mismatches"])
    for m in tagged(res["mismatches"], prop):
        m["replay_sub"] = "overflow"
        out["mismatches"].append(m)
    out["coverage"]["evaluations"] += res["evaluations"]
    out["coverage"]["distinct_nontrivial"] += res["distinct_nontrivial"]
    out["coverage"]["queue_overflow_scenario"] = {"evaluations": res["evaluations"], "extra": res.get("extra")}
    out["coverage"]["rule"] += (" Queue overflow: CacheAuto_overflow.cfg (a kernel queue of 2 events) exhaustively; on the code, the counter-example's shape with "
                                "the real queue (fs.inotify.max_queued_events): one event held at the gate, a burst of ignored events, the goroutine "
                                "parked after its rescan, the Spec file replaced (event dropped), then only ignored events and the overflow notice.")
    return out


@check("C11")
def c11(prop, tier, seed):
    return with_overflow(c11_auto(prop, tier, seed), prop)


def c11_auto(prop, tier, seed):
    if tier == "quick":
        return auto_family(prop, tier, seed, ["CacheAuto_quick.cfg", "CacheAuto_away.cfg", "CacheAuto_overflow.cfg", "CacheAuto_loose.cfg"], [("CacheAuto_gen1.cfg", 40, 40), ("CacheAuto_gen3.cfg", 15, 40)],
                           [("CacheAuto_quick.cfg", [("FIX_CREATE", []), ("FIX_READD", [("MaxFsOps = 4", "MaxFsOps = 5"), ("FIX_SCANWATCHED = TRUE", "FIX_SCANWATCHED = FALSE")]), ("FIX_SCANWATCHED", [("MaxFsOps = 4", "MaxFsOps = 5")])]),
                            ("CacheAuto_away.cfg", [("FIX_RENAMEDIR", []), ("FIX_SCANWATCHED", [])]), ("CacheAuto_overflow.cfg", [("FIX_OVERFLOW", [])])], "The rename-away history class (outside the statement's list) is included.")
    return auto_family(prop, tier, seed, ["CacheAuto_thorough.cfg", "CacheAuto_2dir.cfg", "CacheAuto_away.cfg", "CacheAuto_overflow.cfg", "CacheAuto_loose.cfg"],
                       [("CacheAuto_gen1.cfg", 400, 40), ("CacheAuto_gen2.cfg", 300, 60), ("CacheAuto_gen3.cfg", 200, 40)],
                       [("CacheAuto_quick.cfg", [("FIX_CREATE", []), ("FIX_READD", [("MaxFsOps = 4", "MaxFsOps = 5"), ("FIX_SCANWATCHED = TRUE", "FIX_SCANWATCHED = FALSE")]), ("FIX_SCANWATCHED", [("MaxFsOps = 4", "MaxFsOps = 5")])]),
                        ("CacheAuto_away.cfg", [("FIX_RENAMEDIR", []), ("FIX_SCANWATCHED", [])]), ("CacheAuto_overflow.cfg", [("FIX_OVERFLOW", [])])], "The rename-away history class (outside the statement's list) is included.")


@check("C20")
def c20(prop, tier, seed):
    if tier == "quick":
        out = auto_family(prop, tier, seed, ["CacheAuto_confq.cfg"], [("CacheAuto_confgen.cfg", 25, 60)],
                          [("CacheAuto_confq.cfg", [("FIX_STALE", [("MaxFsOps = 2", "MaxFsOps = 3")])])], "")
        n = 200
    else:
        out = auto_family(prop, tier, seed, ["CacheAuto_conf.cfg", "CacheAuto_confshort.cfg"], [("CacheAuto_confgen.cfg", 300, 70)],
                          [("CacheAuto_confq.cfg", [("FIX_STALE", [("MaxFsOps = 2", "MaxFsOps = 3")])])], "")
        n = 2000
    # the resource side, each in a process of its own
    extra = {}
    for sub, args in (("reconf", ["-n", n, "-seed", seed]), ("reconf-short", []), ("reconf-default", ["-mode", "first"]), ("reconf-default", ["-mode", "later"])):
        res, err = run_harness(sub, args, timeout=1800)
        tool_errors(res["mismatches"])
        for m in tagged(res["mismatches"], prop):
            m["replay_sub"] = sub
            out["mismatches"].append(m)
        out["coverage"]["evaluations"] += res["evaluations"]
        out["coverage"]["distinct_nontrivial"] += res["distinct_nontrivial"]
        extra[sub + " " + " ".join(str(a) for a in args)] = {"evaluations": res["evaluations"], "extra": res.get("extra")}
    out["coverage"]["resource_probes"] = extra
    out["coverage"]["rule"] += (" C20 additionally: %d reconfigurations of one cache cycling 6 option sets with inotify descriptors, watches "
                                "(/proc/self/fdinfo), watch.watch and readEvents goroutines required to return to the one-watcher baseline within 2 s and "
                                "not to grow; reaction to a change in a final vs. a dropped directory (refresh.done count); a cache created and "
                                "reconfigured under RLIMIT_NOFILE exhaustion; the default cache configured before and after first use." % n)
    return out


# ---------------------------------------------------------------------------------------
# C12: concurrency - spec/CacheConc.tla (lock discipline), harness stress (-race)

def race_reports(stderr):
    out, cur = [], None
    for l in stderr.splitlines():
        if l.startswith("WARNING: DATA RACE"):
            cur = [l]
            out.append(cur)
        elif cur is not None:
            if l.startswith("=================="):
                cur = None
            else:
                cur.append(l)
    return ["\n".join(r[:40]) for r in out]


@check("C12")
def c12(prop, tier, seed):
    vlib.build_harness(race=True)
    mc_cfgs = ["CacheConc_quick.cfg"] if tier == "quick" else ["CacheConc_all.cfg", "CacheConc_3c.cfg"]
    emit_cfg = "CacheConc_emit.cfg" if tier == "quick" else "CacheConc_emitall.cfg"
    rs = parallel(*([(lambda c=c: run_tlc("MCCacheConc", c, timeout=3000, workers=8)) for c in mc_cfgs]
                    + [lambda: run_tlc("MCCacheConc", emit_cfg, timeout=1800, workers=4)]))
    mcs, em = rs[:-1], rs[-1]
    for r, c in zip(mcs, mc_cfgs):
        model_must_hold(r, c)
    model_must_hold(em, emit_cfg)
    progs = {json.dumps(r, sort_keys=True): r for r in em.rows}
    rows = list(progs.values())
    if not rows:
        raise ToolFailure("vacuous: no client program emitted")
    f = scratch_file("programs.ndjson")
    write_rows(rows, f)
    try:
        res, err = run_harness("stress", ["-cases", f, "-seed", seed, "-duration", "12s" if tier == "quick" else "8m"], race=True,
                               timeout=3000, env_extra={"GORACE": "exitcode=0 history_size=3"})
    finally:
        os.unlink(f)
    mism = tagged(res["mismatches"], prop)
    races = race_reports(err)
    # code -> spec: recorded concurrent executions must be linearizable w.r.t. CacheLin (TLC decides per trace)
    import lintrace
    ldir = os.path.join(vlib.OUT, "%d-lin" % os.getpid())
    shutil.rmtree(ldir, ignore_errors=True)
    lin_extra, lin_n, lin_ev, lin_states = {}, 0, 0, 0
    try:
        for k, (ncl, ntr, nev) in enumerate(() if (mism or races) else (((3, 10, 600), (2, 4, 600), (4, 4, 500)) if tier == "quick" else ((3, 150, 1000), (2, 60, 1000), (4, 60, 800)))):
            sub = os.path.join(ldir, str(k))
            lres, lerr = run_harness("lin", ["-seed", seed * 10 + k, "-traces", ntr, "-events", nev, "-clients", ncl, "-out", sub], race=True, timeout=3000,
                                     env_extra={"GORACE": "exitcode=0 history_size=3"})
            races += race_reports(lerr)
            mism += tagged(lres["mismatches"], prop)
            if lres["mismatches"]:
                break
            for kk, vv in lres.get("extra", {}).items():
                lin_extra[kk] = lin_extra.get(kk, 0) + vv
            n, ne, st, mm = lintrace.validate_dir(sub, par=12)
            lin_n, lin_ev, lin_states = lin_n + n, lin_ev + ne, lin_states + st
            tool_errors(mm)
            mism += mm
            if mm:
                break
    finally:
        shutil.rmtree(ldir, ignore_errors=True)
    if not (mism or races) and (lin_n == 0 or not lin_extra.get("caches_without_watcher")):
        raise ToolFailure("vacuous: no linearizability trace recorded, or no cache without watcher in any of them")
    seen = set()
    for r in races:
        # one violation per distinct pair of source locations
        locs = tuple(sorted(set(l.strip() for l in r.splitlines() if (vlib.REPO + "/") in l)))[:4]
        if locs in seen:
            continue
        seen.add(locs)
        mism.append({"what": "data-race", "props": [prop], "case": -1, "step": -1, "want": "no race-detector report", "got": list(locs), "note": r, "row": None})
    extra = res.get("extra", {})
    cov = {"states": sum(r.distinct for r in mcs), "transitions": sum(r.generated for r in mcs),
           "traces_validated_against_impl": res["evaluations"], "evaluations": extra.get("operations", res["evaluations"]),
           "distinct_nontrivial": len(rows), "client_programs": len(rows), "stress_rounds": extra.get("rounds"),
           "critical_sections_counted": extra.get("critical_sections_counted"), "race_reports": len(races),
           "lin_traces_validated": lin_n, "lin_events": lin_ev, "lin_trace_states": lin_states, "lin_caches_without_watcher": lin_extra.get("caches_without_watcher"),
           "rule": "model: TLC explores every interleaving of 2 clients running every program of 2 operations (quick: the 7 operations that differ "
                   "in lock discipline; thorough: all 13, and 3 clients x single operations), the watcher goroutine and an atomic switcher; "
                   "NoRace/MutualExclusion/SnapshotOK and absence of deadlock. code: the same client programs, replicated over all cores, run "
                   "under the race detector against one auto-refresh cache while a switcher renames two contents (two devices each) into place; "
                   "every ListDevices/GetDevice/InjectDevices/GetVendorSpecs result must be one content completely; a counter incremented from "
                   "the hook inside every critical section races if a lock is dropped; no operation completing for 30 s is a stall. "
                   "code -> spec (linearizability): 2-4 goroutines call Refresh and the query API on a manual cache, an auto-refresh cache whose "
                   "watcher could not be created (every call rescans) and an auto-refresh cache with a watcher while a switcher renames contents "
                   "of increasing version into place; calls, returns (with the version the result shows) and renames are logged in one total order and "
                   "TLC validates every log against spec/CacheLin.tla: some placement of one critical section per call, of the renames' effects and of "
                   "the watcher's rescans must explain every returned version (a manual query answers from the index exactly, a completed Refresh "
                   "shows in every later query, versions never go back, no result mixes versions). "
                   "distinct_nontrivial = distinct client program pairs executed",
           "samples": rows[:2], "exhaustive": False,
           "checker_cmd": "tlc MCCacheConc ; harness-race stress ; harness-race lin + tlc CacheLin per trace"}
    return {"level": "model_checking", "coverage": cov, "mismatches": mism, "replay_with": "",
            "assumptions": ["interleavings are exhaustive in the model only; on the code the race detector is sound for the executions it sees",
                            "the lock-discipline table of spec/CacheConc.tla is a transcription of cache.go (read/write sets per operation)"]}


# ---------------------------------------------------------------------------------------
# family: schema (C17 C18) - tools/schema2tla.py, spec/Schema.tla, harness schema-docs / oracle-schema

DRAFT07_UNIMPLEMENTED = {"multipleOf", "exclusiveMaximum", "exclusiveMinimum", "maxLength", "minLength", "pattern", "additionalItems", "maxItems",
                         "minItems", "uniqueItems", "contains", "maxProperties", "minProperties", "additionalProperties", "dependencies",
                         "propertyNames", "enum", "const", "allOf", "anyOf", "oneOf", "not", "if", "then", "else"}


@check("C17", "C18")
def schema_family(prop, tier, seed):
    import schema2tla
    vlib.build_harness()
    # 1. token documents from the SpecDoc generator
    runs = [("MCSpecDoc", "SpecDoc_quick.cfg" if tier == "quick" else "SpecDoc_thorough.cfg", {})]
    if tier == "thorough":
        runs.append(("MCSpecDoc", "SpecDoc_sim.cfg", dict(simulate="num=6", depth=4, seed=seed, workers=4)))
    rs = parallel(*[(lambda m=m, c=c, kw=kw: run_tlc(m, c, deadlock=True, timeout=3000, **kw)) for (m, c, kw) in runs])
    trows = [row for r in rs for row in r.rows]
    f1, f2, f3 = scratch_file("schema-tokens.ndjson"), scratch_file("schema-docs.ndjson"), scratch_file("schema-cases.ndjson")
    write_rows(trows, f1)
    try:
        h = vlib.build_harness()
        p = vlib.sh([h, "schema-docs", "-cases", f1, "-out", f2, "-max-mutations", "1500" if tier == "quick" else "20000"], env=vlib.goenv(), timeout=1800)
        docs = [json.loads(l) for l in open(f2)]
        # 2. the oracle: the shipped schema files evaluated by TLC on every document
        text, tagged_docs, unknown = schema2tla.prepare(vlib.REPO, [json.loads(json.dumps(d["doc"])) for d in docs])
        bad = sorted(set(u.split(":")[0] for u in unknown) & (DRAFT07_UNIMPLEMENTED | {"patternProperties"}))
        if bad and prop == "C18":
            # the oracle is undefined, but C18 can still be decided on the real validator alone:
            # every library-valid document must survive the round trips with the builtin schema installed
            write_rows(docs, f3)
            res18, _ = run_harness("oracle-c18", ["-cases", f3, "-seed", seed], timeout=3000)
            tool_errors(res18["mismatches"])
            mine = tagged(res18["mismatches"], prop)
            for m in mine:
                m["replay_sub"] = "oracle-c18"
            cov = {"evaluations": res18["evaluations"], "distinct_nontrivial": res18["distinct_nontrivial"], "states": sum(r.distinct for r in rs),
                   "transitions": sum(r.generated for r in rs), "traces_validated_against_impl": res18["evaluations"],
                   "oracle": "unavailable: the schema files use %s, which spec/Schema.tla does not implement; only the validator-installed round trips were decided" % bad,
                   "rule": "library-valid documents written/read/validated with the builtin schema installed as Spec validator", "samples": [docs[0]["doc"]], "exhaustive": False}
            return {"level": "model_checking", "coverage": cov, "mismatches": mine, "replay_with": "oracle-c18", "assumptions": []}
        if bad:
            raise ToolFailure("the schema files use keywords the TLA+ evaluator does not cover: %s" % bad)
        ft = scratch_file("schema-tagged.ndjson")
        write_rows(tagged_docs, ft)
        try:
            tr = run_tlc("Schema", "Schema.cfg", env_extra={"DOCS": ft}, keep={"SchemaFiles.tla": text}, workers=1, timeout=3000)
        finally:
            os.unlink(ft)
        model_must_hold(tr, "Schema.cfg")
        verdict = {r["i"]: r["valid"] for r in tr.rows}
        if len(verdict) != len(docs):
            raise ToolFailure("oracle evaluated %d of %d documents" % (len(verdict), len(docs)))
        nvalid = sum(1 for v in verdict.values() if v)
        if nvalid == 0 or nvalid == len(docs):
            raise ToolFailure("vacuous oracle: %d of %d documents valid" % (nvalid, len(docs)))
        for i, d in enumerate(docs):
            d["valid"] = verdict[i + 1]
        write_rows(docs, f3)
        res, err = run_harness("oracle-schema", ["-cases", f3, "-seed", seed, "-repo", vlib.REPO], timeout=3000)
        res18 = None
        if prop == "C18":
            res18, _ = run_harness("oracle-c18", ["-cases", f3, "-seed", seed], timeout=3000)
    finally:
        for f in (f1, f2, f3):
            if os.path.exists(f):
                os.unlink(f)
    tool_errors(res["mismatches"])
    mine = tagged(res["mismatches"], prop)
    if res18 is not None:
        for m in tagged(res18["mismatches"], prop):
            m["replay_sub"] = "oracle-c18"
            mine.append(m)
        if res18["evaluations"] == 0:
            raise ToolFailure("vacuous: no library-valid document reached the validator-installed round trip")
    extra = res.get("extra", {})
    cov = {"validator_installed_round_trips": res18["evaluations"] if res18 else None,
           "states": tr.distinct + sum(r.distinct for r in rs), "transitions": max(tr.generated, 1) + sum(r.generated for r in rs),
           "traces_validated_against_impl": res["evaluations"], "evaluations": res["evaluations"], "distinct_nontrivial": res["distinct_nontrivial"],
           "entry_point_verdicts": res["steps"], "schema_valid_docs": extra.get("schema_valid_docs"), "library_valid_docs": extra.get("library_valid_docs"),
           "ill_formed_annotation_docs": extra.get("ill_formed_annotation_docs"), "keywords_ignored_as_unknown": unknown,
           "rule": "documents: every token document of the SpecDoc generator rendered to JSON, every single-position JSON mutation of the base documents "
                   "(member removed; value replaced by a string, integer, float, boolean, null, empty/non-empty array and object; numbers set to "
                   "-1, 0, 1, 2^32-1, 2^32, 2^63-1, 2^63, -2^63, -2^63-1, 2^64, 1.5; an extra member in every object), the re-marshalled form of every "
                   "document a Go value can express, and five non-object documents. verdict: spec/Schema.tla evaluating a module generated from the "
                   "shipped schema files at check time. code: ValidateData (JSON and YAML bytes), ValidateFile (.json, .yaml), ValidateReader, "
                   "ReadAndValidate, ValidateType, Validate(*Spec) under the builtin schema, an externally loaded copy, 'none' and a nil schema. "
                   "C18 additionally: every library-valid document is written as .json and .yaml with SetSpecValidator(BuiltinSchema()) "
                   "installed, read back, refreshed and validated as a file. "
                   "every document is non-trivial (the oracle rejects about half of them)",
           "samples": [{"doc": docs[len(docs) // 2]["doc"], "valid": docs[len(docs) // 2]["valid"]}], "exhaustive": True,
           "checker_cmd": "tlc MCSpecDoc ; harness schema-docs ; tools/schema2tla.py ; tlc Schema ; harness oracle-schema"}
    return {"level": "model_checking", "coverage": cov, "mismatches": mine, "replay_with": "oracle-schema",
            "assumptions": ["the evaluator implements the draft-07 keywords the shipped files use (type, properties, required, items, $ref, minimum, maximum, "
                            "patternProperties '.{1,}'); any other validation keyword makes the check stop with exit 2",
                            "documents with ill-formed annotation keys: only 'rejects when the files reject' and equal verdicts for both encodings are required",
                            "library-valid (C18) = Cache.WriteSpec of the decoded value succeeds without a validator installed"]}


# ---------------------------------------------------------------------------------------
# C19: the command line tools

@check("C19")
def c19(prop, tier, seed):
    import random
    vlib.build_harness()
    bins = vlib.build_cli()
    rs = parallel(lambda: run_tlc("MCCacheSeq", "CacheSeq_q0.cfg", deadlock=True, timeout=3000, workers=8),
                  lambda: run_tlc("MCSpecDoc", "SpecDoc_quick.cfg", deadlock=True, timeout=3000, workers=4))
    for r in rs:
        model_must_hold(r, "generation")
    rng = random.Random(seed)
    rows = [r for r in rs[0].rows if r["dirs"]]
    rng.shuffle(rows)
    # populations without a failing file are the ones whose listings are printed: keep both kinds
    clean = [r for r in rows if not r["hist"][0]["view"]["errmust"] and not r["hist"][0]["view"]["errmay"] and all(r["fs0"][d]["st"] == "dir" for d in r["dirs"])]
    faulty = [r for r in rows if r["hist"][0]["view"]["errmust"]]
    n = 120 if tier == "quick" else 2500
    # always some lists in which a directory comes back after another one (its later position counts)
    again = [r for r in clean if len(r["dirs"]) == 3 and r["hist"][0]["view"]["devs"]][:30]
    sel = again + [r for r in clean if r not in again][:n - len(again)] + faulty[:n // 4]
    f1, f2, f3 = scratch_file("cli-rows.ndjson"), scratch_file("cli-tokens.ndjson"), scratch_file("cli-docs.ndjson")
    write_rows(sel, f1)
    write_rows(rs[1].rows, f2)
    try:
        vlib.sh([vlib.build_harness(), "schema-docs", "-cases", f2, "-out", f3, "-max-mutations", "300"], env=vlib.goenv(), timeout=900)
        docs = [json.loads(l) for l in open(f3)]
        rng.shuffle(docs)
        # always among the sample: documents whose only defect is an ill-formed annotation key (the schema files
        # accept them, the library's content check does not)
        badann = [d for d in docs if any(k in json.dumps(d["doc"]) for k in ('"-x"', '"a/b/c"', '"-bad.com/x"', '"": "v"'))][:8]
        rest = [d for d in docs if d not in badann]
        write_rows(badann + rest[:(40 if tier == "quick" else 600) - len(badann)], f3)
        res, err = run_harness("cli", ["-cases", f1, "-seed", seed, "-cdi", bins["cdi"], "-validate", bins["validate"], "-docs", f3, "-repo", vlib.REPO], timeout=3000)
    finally:
        for f in (f1, f2, f3):
            if os.path.exists(f):
                os.unlink(f)
    tool_errors(res["mismatches"])
    mine = tagged(res["mismatches"], prop)
    cov = {"states": rs[0].distinct, "transitions": max(rs[0].generated, 1), "traces_validated_against_impl": res["evaluations"],
           "evaluations": res["evaluations"], "distinct_nontrivial": res["distinct_nontrivial"], "tool_invocations": res["steps"],
           "validate_tool_documents": res.get("extra", {}).get("validate_tool_documents"),
           "rule": "a seeded sample of the directory populations enumerated by spec/CacheSeq.tla (all directory lists, shadowing, conflicts, "
                   "invalid files): `cdi -d <dirs>` devices / vendors / classes / specs / validate / inject (-o json and yaml, three pattern sets) are "
                   "run and parsed; listings, files in error, exit status and the injected OCI spec are compared with the library on the same "
                   "directories (configured as the tool configures it) and the device list with the model; `validate --schema builtin|none|<file>` "
                   "(file argument and stdin) against schema.ValidateFile/ValidateData on sampled documents. non-trivial = a population with devices",
           "samples": [sel[0]], "exhaustive": False,
           "checker_cmd": "go build ./cmd/cdi ./cmd/validate ; tlc MCCacheSeq (CacheSeq_q0.cfg) ; harness cli"}
    return {"level": "model_checking", "coverage": cov, "mismatches": mine, "replay_with": "",
            "assumptions": ["the output format of the tools is parsed with regular expressions written against the current format",
                            "`monitor` (never terminates) and `resolve` are not exercised"]}


# ---------------------------------------------------------------------------------------
# C09: round trips (exploration level)

@check("C09")
def c09(prop, tier, seed):
    runs = [("RoundTrip", "RoundTrip_quick.cfg", {})] if tier == "quick" else \
           [("RoundTrip", "RoundTrip_thorough.cfg", {}), ("RoundTrip", "RoundTrip_pairs.cfg", {})]
    out = generic_replay(prop, tier, seed, runs, "roundtrip", "exploration",
                         "a rich Spec (every optional field present) with one string slot (16 slots: env values, hook path/args/env, mount "
                         "paths/options/type, node path/hostPath, RDT strings, annotation values, permissions) set to each of 80 pool strings "
                         "(YAML-sensitive spellings yes/~/0123/1_000/dates/.inf, leading/trailing blanks, tabs, newlines, CR, quotes, '#', ': ', flow and "
                         "block indicators, C0/C1 controls, DEL, NEL, NBSP, LS/PS, BOM, U+FFFD, non-BMP, long line, empty; thorough: + 120 seeded random "
                         "UTF-8 strings and pairs of slots) or one integer field (7) set to each extreme (8), written with WriteSpec as .json, .yaml and "
                         "extension-less, read back with ReadSpec (semantic equality: nil = empty, pointers by pointee) and loaded through a cache "
                         "(devices equal). non-trivial = accepted for writing",
                         ["TLA+ contributes the write/read state machine and the enumeration; it says nothing about YAML scalar resolution",
                          "the string dimension is a pool plus seeded random UTF-8, not the string space; invalid UTF-8 is not generated"])
    return out


# ---------------------------------------------------------------------------------------
# C08: nothing untrusted crashes or hangs the library (exploration level)

@check("C08")
def c08(prop, tier, seed):
    import shutil, subprocess
    vlib.build_harness()
    mism = []
    cov_runs = []
    total_eval = total_nt = 0
    # 1. the structured corpus of the other families, replayed under the panic/hang monitor
    fams = [("oracle-qname", [("QNameStrings", "QNameStrings_boundary.cfg", {}), ("QNameParts", "QNameParts_quick.cfg", {})]),
            ("replay-annot", [("MCAnnotations", "Annotations_quick.cfg", {})]),
            ("replay-edits", [("MCEdits", "Edits_quick.cfg", {})]),
            ("replay-cache", [("MCCacheSeq", "CacheSeq_q3.cfg", {}), ("MCCacheSeq", "CacheSeq_t2.cfg", {})]),
            ("oracle-doc", [("MCSpecDoc", "SpecDoc_quick.cfg" if tier == "quick" else "SpecDoc_thorough.cfg", {})])]
    if tier == "thorough":
        fams.append(("oracle-doc", [("MCSpecDoc", "SpecDoc_sim.cfg", dict(simulate="num=10", depth=4, seed=seed, workers=4))]))
        fams.append(("replay-inject", [("MCInject", "Inject_quick.cfg", {})]))
    for sub, runs in fams:
        o = generic_replay(prop, tier, seed, runs, sub, "exploration", "", [])
        mism += o["mismatches"]
        total_eval += o["coverage"]["evaluations"]
        total_nt += o["coverage"]["distinct_nontrivial"]
        cov_runs.append({"harness": sub, "cases": o["coverage"]["evaluations"]})
    # 2. the lexical perturbations + the live watcher goroutine
    tr = run_tlc("MCSpecDoc", "SpecDoc_quick.cfg", deadlock=True, timeout=3000)
    f1, f2 = scratch_file("c08-tokens.ndjson"), scratch_file("c08-docs.ndjson")
    mdir = vlib.mkscratch("c08-marker")
    write_rows(tr.rows, f1)
    try:
        h = vlib.build_harness()
        vlib.sh([h, "schema-docs", "-cases", f1, "-out", f2, "-max-mutations", "600" if tier == "quick" else "6000"], env=vlib.goenv(), timeout=1800)
        env = vlib.goenv()
        env["VERIF_TMP"] = vlib.scratch_root()
        p = subprocess.run([h, "nocrash", "-cases", f2, "-seed", str(seed), "-workers", "10", "-marker-dir", mdir] + (["-limit", "1200"] if tier == "quick" else []),
                           env=env, stdout=subprocess.PIPE, stderr=subprocess.PIPE, text=True, timeout=3000)
        lines = [l for l in p.stdout.split("\n") if l.strip()]
        if p.returncode in (0, 1) and lines:
            res = json.loads(lines[-1])
            mism += tagged(res["mismatches"], prop)
            total_eval += res["evaluations"]
            total_nt += res["distinct_nontrivial"]
            cov_runs.append({"harness": "nocrash", "cases": res["evaluations"], "entry_point_calls": res["steps"]})
        elif "panic:" in p.stderr or "fatal error:" in p.stderr or "SIGSEGV" in p.stderr:
            culprits = []
            for fn in sorted(os.listdir(mdir))[:4]:
                culprits.append(open(os.path.join(mdir, fn), errors="replace").read()[:400])
            mism.append({"what": "process-crashed", "props": [prop], "case": -1, "step": -1, "want": "an error",
                         "got": p.stderr[-1500:], "note": "inputs being processed when the process died: " + json.dumps(culprits), "row": None})
        else:
            raise ToolFailure("harness nocrash failed rc=%d\n%s" % (p.returncode, p.stderr[-2000:]))
    finally:
        for f in (f1, f2):
            if os.path.exists(f):
                os.unlink(f)
        shutil.rmtree(mdir, ignore_errors=True)
    cov = {"evaluations": total_eval, "distinct_nontrivial": total_nt, "runs": cov_runs,
           "rule": "the structured corpus of the QName, Annotations, Edits, CacheSeq and SpecDoc generators replayed under recover() and a watchdog; "
                   "plus, for every token document and JSON-level mutation (null/number/object/array at every slot), 20 byte-level variants (YAML "
                   "encoding, anchors/aliases/merge keys/tags/multi-documents, 6 truncations, 64 KiB scalar, 200-deep and 5000-deep nesting, "
                   "self-referencing aliases, binary junk, 1e400) through ParseSpec, ReadSpec (.json/.yaml), the schema entry points, "
                   "MinimumRequiredVersion, WriteSpec, injection of every loadable device into 6 hostile OCI specs, the parser and annotation "
                   "helpers, and a live auto-refresh cache whose watcher goroutine must still refresh afterwards. distinct = distinct rows",
           "samples": ["{\"deviceNodes\": [null]}", "truncated / anchored / 5000-deep variants of every document"], "exhaustive": False}
    return {"level": "exploration", "coverage": cov, "mismatches": mism, "replay_with": "",
            "assumptions": ["not a universal statement over byte strings: a crash that needs a byte pattern no model slot or listed perturbation describes is missed",
                            "a hang is a call that does not return within 20-60 s"]}
