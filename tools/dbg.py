#!/usr/bin/env python3
"""developer helper: run a check function and print a breakdown of all disagreements"""
import sys, json, os
sys.path.insert(0, os.path.dirname(os.path.abspath(__file__)))
import vlib, families
from collections import Counter
prop, tier = sys.argv[1], (sys.argv[2] if len(sys.argv) > 2 else "quick")
out = families.CHECKS[prop](prop, tier, 1)
ms = out["mismatches"]
c = Counter((m["what"], (m.get("note") or "").split(":")[0][:60]) for m in ms)
for k, v in sorted(c.items(), key=lambda x: -x[1]):
    print(v, k)
seen = set()
for m in ms:
    k = (m["what"], (m.get("note") or "").split(":")[0][:60])
    if k in seen:
        continue
    seen.add(k)
    mm = {x: y for x, y in m.items() if x != "row"}
    print(json.dumps(mm)[:int(os.environ.get("W", "700"))])
