#!/usr/bin/env python3
"""Seeded changes (mutants) bookkeeping.
   seed.py verify <dir-with-patch.diff,demo_test.go,meta.json> <id>   confirm the claims in a scratch worktree, keep as seeded/<id>/
   seed.py run <id> [quick|thorough] [Cxx ...]                        apply to /repo, run the checks, undo, record what caught it
   seed.py runall [quick|thorough]"""
import json, os, re, shutil, subprocess, sys, time
V = os.path.dirname(os.path.dirname(os.path.abspath(__file__)))
SEEDED = os.path.join(V, "seeded")
ENV = dict(os.environ, GOFLAGS="-mod=mod", GOPROXY="off", GOSUMDB="off", GOTOOLCHAIN="local")
MODS = [".", "specs-go", "schema", "cmd/cdi", "cmd/validate"]


def sh(cmd, cwd=None, timeout=1800):
    p = subprocess.run(cmd, cwd=cwd, env=ENV, shell=isinstance(cmd, str), stdout=subprocess.PIPE, stderr=subprocess.STDOUT, text=True, timeout=timeout)
    return p.returncode, p.stdout


def verify(src, mid):
    meta = json.load(open(os.path.join(src, "meta.json")))
    run = meta["demo"]["run"]
    m = re.search(r"-run\s+(\S+)", run)
    test = m.group(1)
    wt = "/tmp/wt-verify-%d" % os.getpid()
    sh(["git", "-C", "/repo", "worktree", "add", "--detach", wt, "HEAD"])
    rec = {}
    try:
        place = meta["demo"].get("place_at", "pkg/cdi/")
        race = " -race" if "-race" in run else ""
        pl = place.strip().split()[0]
        ddir = os.path.dirname(pl) if pl.endswith(".go") else pl.rstrip("/")
        if not os.path.isdir(os.path.join(wt, ddir)):
            ddir = "pkg/cdi"
        # the module the demo belongs to: nearest go.mod above it
        mod = ddir
        while mod and not os.path.exists(os.path.join(wt, mod, "go.mod")):
            mod = os.path.dirname(mod)
        demo = os.path.join(wt, ddir, "zz_seeded_demo_test.go")
        tcwd = os.path.join(wt, mod)
        tpkg = "./" + os.path.relpath(os.path.join(wt, ddir), tcwd) + "/"
        shutil.copy(os.path.join(src, "demo_test.go"), demo)
        rc, out = sh("go test%s -vet=off -count=1 -run '%s' %s" % (race, test, tpkg), cwd=tcwd)
        rec["demo_passes_without_change"] = rc == 0
        os.unlink(demo)
        rc, out = sh(["git", "apply", os.path.join(src, "patch.diff")], cwd=wt)
        rec["patch_applies"] = rc == 0
        ok = True
        for mod in MODS:
            rc, out = sh("go build ./... && go test -vet=off -count=1 ./...", cwd=os.path.join(wt, mod))
            if rc != 0:
                ok = False
                rec["suite_failure"] = out[-1500:]
        rec["builds_and_suite_passes_with_change"] = ok
        shutil.copy(os.path.join(src, "demo_test.go"), demo)
        rc, out = sh("go test%s -vet=off -count=1 -run '%s' %s" % (race, test, tpkg), cwd=tcwd)
        rec["demo_fails_with_change"] = rc != 0
        rec["demo_output_tail"] = out[-600:]
    finally:
        sh(["git", "-C", "/repo", "worktree", "remove", "--force", wt])
        shutil.rmtree(wt, ignore_errors=True)
    good = rec.get("demo_passes_without_change") and rec.get("patch_applies") and rec.get("builds_and_suite_passes_with_change") and rec.get("demo_fails_with_change")
    print(mid, "CONFIRMED" if good else "REJECTED", json.dumps({k: v for k, v in rec.items() if k != "demo_output_tail"}))
    if good:
        d = os.path.join(SEEDED, mid)
        os.makedirs(d, exist_ok=True)
        shutil.copy(os.path.join(src, "patch.diff"), d)
        shutil.copy(os.path.join(src, "demo_test.go"), d)
        meta["id"] = mid
        meta["base_commit"] = sh(["git", "-C", "/repo", "rev-parse", "HEAD"])[1].strip()
        meta["confirmed"] = {"what_i_ran": "scratch worktree of /repo HEAD: demo alone (pass); git apply patch.diff; go build + go test -vet=off -count=1 ./... in all 5 modules (pass); demo (fail)",
                             "demo_test": test, **{k: v for k, v in rec.items() if k != "suite_failure"}}
        meta.setdefault("detected_by", {})
        json.dump(meta, open(os.path.join(d, "meta.json"), "w"), indent=1)
    return 0 if good else 1


def run(mid, tier="quick", props=None):
    """Apply the seeded change in a scratch worktree of /repo HEAD and run the checks against that
    checkout (VERIF_REPO); /repo itself is not touched.  `--in-repo` applies it to /repo instead."""
    d = os.path.join(SEEDED, mid)
    meta = json.load(open(os.path.join(d, "meta.json")))
    # a change written for one property may in fact break (only) another one: meta "run_against" says which checks decide it
    props = props or meta.get("run_against") or [meta["property"]]
    wt = "/tmp/wt-seed-%s-%d" % (mid, os.getpid())
    sh(["git", "-C", "/repo", "worktree", "add", "--detach", wt, "HEAD"])
    res = {}
    try:
        rc, out = sh(["git", "-C", wt, "apply", os.path.join(d, "patch.diff")])
        if rc != 0:
            rc, out = sh(["git", "-C", wt, "apply", "--3way", os.path.join(d, "patch.diff")])
            if rc != 0:
                print("patch does not apply to /repo HEAD:", out[-400:])
                return 2
            sh(["git", "-C", wt, "reset", "-q"])
            rc, diff = sh(["git", "-C", wt, "diff"])
            shutil.copy(os.path.join(d, "patch.diff"), os.path.join(d, "patch.orig.diff"))
            open(os.path.join(d, "patch.diff"), "w").write(diff)
            meta["rebased_onto"] = sh(["git", "-C", "/repo", "rev-parse", "HEAD"])[1].strip()
        env = dict(ENV, VERIF_REPO=wt)
        for p in props:
            t = time.time()
            pr = subprocess.run([os.path.join(V, "check"), p, tier], cwd=V, env=env, stdout=subprocess.PIPE, stderr=subprocess.STDOUT, text=True, timeout=7200)
            rc, out = pr.returncode, pr.stdout
            viol = [l for l in out.splitlines() if l.startswith("VIOLATION")]
            res[p] = {"tier": tier, "exit": rc, "violations": len(viol), "wall_s": round(time.time() - t, 1)}
            first = next((l for l in out.splitlines() if l.strip().startswith("what=")), "")
            print("%s on %s %s: exit=%d %s %s" % (mid, p, tier, rc, "CAUGHT" if rc == 1 and viol else ("ERROR" if rc == 2 else "missed"), first.strip()))
            if rc == 2:
                print(out[-1500:])
    finally:
        sh(["git", "-C", "/repo", "worktree", "remove", "--force", wt])
        shutil.rmtree(wt, ignore_errors=True)
        import hashlib
        tag = hashlib.sha1(os.path.abspath(wt).encode()).hexdigest()[:10]
        shutil.rmtree(os.path.join(V, "bin", tag), ignore_errors=True)
        shutil.rmtree(os.path.join(V, "out", tag), ignore_errors=True)
    meta.setdefault("detected_by", {})
    for p, r in res.items():
        meta["detected_by"]["%s/%s" % (p, tier)] = r
    meta["how_run"] = "tools/seed.py run: scratch worktree of /repo HEAD + git apply patch.diff, ./check <id> <tier> with VERIF_REPO=<worktree> (same effect as applying it to /repo and undoing it), worktree removed"
    json.dump(meta, open(os.path.join(d, "meta.json"), "w"), indent=1)
    return 0


if __name__ == "__main__":
    a = sys.argv[1:]
    if a[0] == "verify":
        sys.exit(verify(a[1], a[2]))
    if a[0] == "run":
        tier = a[2] if len(a) > 2 and a[2] in ("quick", "thorough") else "quick"
        props = [x for x in a[2:] if re.match(r"C\d+$", x)]
        sys.exit(run(a[1], tier, props or None))
    if a[0] == "runall":
        # every seeded change against the check of its property, several at a time (each in its own worktree)
        import concurrent.futures
        tier = a[1] if len(a) > 1 and a[1] in ("quick", "thorough") else "quick"
        par = int(a[2]) if len(a) > 2 else 3
        mids = [m for m in sorted(os.listdir(SEEDED)) if os.path.exists(os.path.join(SEEDED, m, "patch.diff"))]
        with concurrent.futures.ThreadPoolExecutor(max_workers=par) as ex:
            list(ex.map(lambda m: run(m, tier), mids))
