"""Turns `strace -f -y` output of the writer child into FSTrace events (spec/FSTrace.tla).
Only calls that touch the Spec directory are kept; paths are reduced to names inside it."""
import json, os, re, sys

LINE = re.compile(r"^(\d+)\s+(.*)$")
CALL = re.compile(r"^(\w+)\((.*)\)\s+=\s+(-?\d+|\?)(.*)$")
FDPATH = re.compile(r"^(\d+)<(.*?)>")


def is_spec(n):
    return n.endswith(".json") or n.endswith(".yaml")


def split_args(s):
    out, depth, cur, instr, esc = [], 0, "", False, False
    for ch in s:
        if instr:
            cur += ch
            if esc:
                esc = False
            elif ch == "\\":
                esc = True
            elif ch == '"':
                instr = False
            continue
        if ch == '"':
            instr = True
            cur += ch
        elif ch in "([{<":
            depth += 1
            cur += ch
        elif ch in ")]}>":
            depth -= 1
            cur += ch
        elif ch == "," and depth == 0:
            out.append(cur.strip())
            cur = ""
        else:
            cur += ch
    if cur.strip():
        out.append(cur.strip())
    return out


def unq(s):
    s = s.strip()
    if s.endswith("..."):
        s = s[:-3]
    if len(s) >= 2 and s[0] == '"' and s[-1] == '"':
        return bytes(s[1:-1], "utf-8").decode("unicode_escape")
    return s


def convert(path, specdir, newlen, oldlen, target):
    """returns (events, problems)"""
    specdir = os.path.normpath(specdir)
    events = [{"ev": "reset", "newlen": newlen}]
    if oldlen:
        events.append({"ev": "exists", "name": target, "spec": is_spec(target), "len": oldlen})
    pending = {}
    totals = {}
    problems = []

    def inside(p):
        p = os.path.normpath(p)
        if os.path.dirname(p) == specdir:
            return os.path.basename(p)
        return None

    def resolve(dirarg, patharg):
        p = unq(patharg)
        if not os.path.isabs(p):
            m = FDPATH.match(dirarg.strip())
            if m:
                p = os.path.join(m.group(2), p)
            elif dirarg.strip() == "AT_FDCWD":
                return None
        return inside(p)

    for raw in open(path, errors="replace"):
        m = LINE.match(raw.rstrip("\n"))
        if not m:
            continue
        pid, rest = m.group(1), m.group(2)
        if rest.endswith("<unfinished ...>"):
            pending[pid] = rest[: -len("<unfinished ...>")].rstrip()
            continue
        r = re.match(r"^<\.\.\. (\w+) resumed>(.*)$", rest)
        if r:
            rest = pending.pop(pid, r.group(1) + "(") + r.group(2).lstrip()
        c = CALL.match(rest)
        if not c:
            continue
        name, args, ret, tail = c.group(1), split_args(c.group(2)), c.group(3), c.group(4)
        ok = ret not in ("?",) and int(ret) >= 0
        retfd = None
        fm = re.match(r"^\s*<", tail)
        if name in ("openat", "open", "creat"):
            if not ok:
                continue
            if name == "openat":
                n = resolve(args[0], args[1])
                flags = args[2] if len(args) > 2 else ""
            else:
                n = resolve("AT_FDCWD", args[0]) if False else inside(unq(args[0]))
                flags = args[1] if len(args) > 1 else "O_CREAT|O_WRONLY|O_TRUNC"
            if n is None:
                continue
            fd = int(ret)
            totals[(pid_group(pid), fd)] = 0
            if "O_DIRECTORY" in flags:
                continue
            wr = "O_WRONLY" in flags or "O_RDWR" in flags
            if "O_CREAT" in flags and "O_EXCL" in flags:
                events.append({"ev": "create", "name": n, "spec": is_spec(n), "fd": fd})
            elif "O_CREAT" in flags and wr:
                events.append({"ev": "createortrunc", "name": n, "spec": is_spec(n), "fd": fd, "trunc": "O_TRUNC" in flags})
            elif "O_TRUNC" in flags and wr:
                events.append({"ev": "opentrunc", "name": n, "spec": is_spec(n), "fd": fd})
            elif wr:
                events.append({"ev": "openwrite", "name": n, "spec": is_spec(n), "fd": fd})
        elif name in ("write", "pwrite64", "writev"):
            m2 = FDPATH.match(args[0])
            if not m2 or inside(m2.group(2)) is None:
                continue
            fd = int(m2.group(1))
            if ok and int(ret) > 0:
                k = (pid_group(pid), fd)
                totals[k] = totals.get(k, 0) + int(ret)
                events.append({"ev": "write", "fd": fd, "total": totals[k]})
        elif name in ("ftruncate", "truncate"):
            problems.append("truncate call on a file: " + rest[:120])
        elif name == "close":
            m2 = FDPATH.match(args[0])
            if m2 and inside(m2.group(2)) is not None and ok:
                events.append({"ev": "close", "fd": int(m2.group(1))})
        elif name in ("rename", "renameat", "renameat2"):
            if not ok:
                continue
            if name == "rename":
                a, b = inside(unq(args[0])), inside(unq(args[1]))
            else:
                a, b = resolve(args[0], args[1]), resolve(args[2], args[3])
            if a is None and b is None:
                continue
            if a is None or b is None:
                # something moved into or out of the Spec directory
                if b is not None:
                    events.append({"ev": "movedin", "name": b, "spec": is_spec(b)})
                else:
                    events.append({"ev": "unlink", "name": a})
                continue
            events.append({"ev": "rename", "name": a, "to": b, "spec": is_spec(b)})
        elif name in ("link", "linkat"):
            if not ok:
                continue
            if name == "link":
                a, b = inside(unq(args[0])), inside(unq(args[1]))
            else:
                a, b = resolve(args[0], args[1]), resolve(args[2], args[3])
            if a is not None and b is not None:
                events.append({"ev": "link", "name": a, "to": b, "spec": is_spec(b)})
        elif name in ("unlink", "unlinkat"):
            if not ok:
                continue
            n = inside(unq(args[0])) if name == "unlink" else resolve(args[0], args[1])
            if n is not None:
                events.append({"ev": "unlink", "name": n})
    # events the generic spec has no action for are turned into ones it has
    out = []
    known = {}
    for e in events:
        if e["ev"] == "exists":
            known[e["name"]] = True
        if e["ev"] == "createortrunc":
            if known.get(e["name"]):
                e = {"ev": "opentrunc" if e["trunc"] else "openwrite", "name": e["name"], "spec": e["spec"], "fd": e["fd"]}
            else:
                e = {"ev": "create", "name": e["name"], "spec": e["spec"], "fd": e["fd"]}
        if e["ev"] == "movedin":
            # a complete file of unknown provenance appears: modelled as create + nothing written => never Complete unless empty
            e = {"ev": "create", "name": e["name"], "spec": e["spec"], "fd": 999}
        if e["ev"] in ("create", "rename", "link"):
            known[e.get("to", e.get("name"))] = True
        if e["ev"] == "unlink":
            known.pop(e["name"], None)
        if e["ev"] == "rename":
            known.pop(e["name"], None)
        out.append(e)
    return out, problems


def pid_group(pid):
    # threads of one process share descriptors; strace -f prints thread ids. One writer process per trace.
    return 0
