"""Trace validation of recorded auto-refresh executions against spec/CacheAutoTrace.tla.
A trace is accepted iff TLC reports NotDone violated (some behaviour consumed it entirely)."""
import json, os
import vlib
from vlib import run_tlc, ToolFailure

CFG = """SPECIFICATION TraceSpec
CONSTANTS
  D = {%(D)s}
  DirOptions = {%(opts)s}
  MaxFsOps = %(nfs)d
  MaxConfs = %(nconf)d
  MaxWids = %(nw)d
  STARTS = {TRUE, FALSE}
  WithTmp = TRUE
  WithShortage = FALSE
  WithRenameAway = TRUE
  FIX_CREATE = TRUE
  FIX_READD = TRUE
  FIX_STALE = TRUE
  FIX_RENAMEDIR = TRUE
  FIX_SCANWATCHED = TRUE
  FIX_RETRY = TRUE
  FIX_OVERFLOW = TRUE
  QMax = 99
  LooseFilter = TRUE
  LooseEnv = %(loose)s
  RECORD = FALSE
INVARIANTS NotDone
CHECK_DEADLOCK FALSE
"""


def q(s):
    return '"%s"' % s


def validate(events, scratch_name, loose_env=False):
    """returns (accepted, result); loose_env: the environment may deliver any event at any time"""
    dirs = set(events[0]["dirs"]) | set(events[0]["ex"])
    opts = [frozenset(events[0]["dirs"])]
    for e in events:
        if e["ev"] == "fs":
            dirs.add(e["d"])
        if e["ev"] == "configured":
            dirs |= set(e["dirs"])
            opts.append(frozenset(e["dirs"]))
    D = sorted(dirs)
    nconf = sum(1 for e in events if e["ev"] == "configured")
    cfg = CFG % {"D": ", ".join(q(d) for d in D),
                 "opts": ", ".join("{" + ", ".join(q(d) for d in sorted(o)) + "}" for o in set(opts)),
                 "nfs": max(1, sum(1 for e in events if e["ev"] == "fs")), "nconf": nconf, "nw": nconf + 1, "loose": "TRUE" if loose_env else "FALSE"}
    f = os.path.join(vlib.OUT, "%d-%s.ndjson" % (os.getpid(), scratch_name))
    os.makedirs(vlib.OUT, exist_ok=True)
    vlib.write_rows(events, f)
    try:
        r = run_tlc("CacheAutoTrace", "trace.cfg", env_extra={"TRACE": f}, keep={"trace.cfg": cfg}, workers=2, timeout=600)
    finally:
        os.unlink(f)
    return ("NotDone" in r.violated), r


def longest_prefix(events, name):
    """bisect: the longest prefix of the trace the specification can explain"""
    lo, hi = 1, len(events)
    while lo < hi:
        mid = (lo + hi + 1) // 2
        ok, _ = validate(events[:mid], name)
        if ok:
            lo = mid
        else:
            hi = mid - 1
    return lo
