"""Shared machinery for /verif/check: building the harness from /repo's working tree,
running TLC, reading its statistics and emitted rows, known findings, evidence files."""
import json, os, re, shutil, subprocess, sys, tempfile, time, hashlib

VERIF = os.path.dirname(os.path.dirname(os.path.abspath(__file__)))
# The checks decide /repo's working tree.  VERIF_REPO=<another checkout> (used only by tools/seed.py to try a
# seeded change in a scratch worktree without touching /repo) redirects the build and keeps its outputs apart.
REPO = os.path.abspath(os.environ.get("VERIF_REPO", "/repo"))
ALT = REPO != "/repo"
_tag = hashlib.sha1(REPO.encode()).hexdigest()[:10] if ALT else ""
SPEC = os.path.join(VERIF, "spec")
BIN = os.path.join(VERIF, "bin", _tag) if ALT else os.path.join(VERIF, "bin")
OUT = os.path.join(VERIF, "out", _tag) if ALT else os.path.join(VERIF, "out")
REPLAYS = os.path.join(OUT, "replays") if ALT else os.path.join(VERIF, "replays")
EVID = os.path.join(OUT, "evidence") if ALT else os.path.join(VERIF, "evidence")
NCPU = os.cpu_count() or 4


class ToolFailure(Exception):
    """The check could not run (exit 2) - never a verdict."""


def goenv():
    e = dict(os.environ)
    e.update(GOFLAGS="-mod=mod", GOPROXY="off", GOSUMDB="off", GOTOOLCHAIN="local",
             CGO_ENABLED=e.get("CGO_ENABLED", "1"))
    return e


def scratch_root():
    base = os.environ.get("VERIF_TMP") or ("/dev/shm" if os.path.isdir("/dev/shm") and os.access("/dev/shm", os.W_OK) else tempfile.gettempdir())
    return base


def mkscratch(prefix):
    return tempfile.mkdtemp(prefix="verif-%s-" % prefix, dir=scratch_root())


def sh(cmd, cwd=None, env=None, timeout=None, check=True, capture=True, input=None):
    p = subprocess.run(cmd, cwd=cwd, env=env, timeout=timeout, input=input,
                       stdout=subprocess.PIPE if capture else None,
                       stderr=subprocess.STDOUT if capture else None, text=True)
    if check and p.returncode != 0:
        raise ToolFailure("command failed (%d): %s\n%s" % (p.returncode, " ".join(cmd), (p.stdout or "")[-4000:]))
    return p


_built = {}


def build_harness(race=False):
    """Rebuild the harness (and with it every /repo package it imports) from /repo's
    current working tree, with the verif tag."""
    key = "race" if race else "plain"
    if key in _built:
        return _built[key]
    os.makedirs(BIN, exist_ok=True)
    hdir = os.path.join(VERIF, "harness")
    if ALT:
        # a private copy of the harness module whose replace directives point at the other checkout
        alt = os.path.join(BIN, "harness-src")
        shutil.rmtree(alt, ignore_errors=True)
        shutil.copytree(hdir, alt)
        gm = open(os.path.join(alt, "go.mod")).read().replace("=> /repo", "=> " + REPO)
        open(os.path.join(alt, "go.mod"), "w").write(gm)
        hdir = alt
    # go.sum is derived from the repository's own sums every time (offline, no proxy)
    sums = set()
    for m in (".", "schema", "cmd/cdi", "cmd/validate"):
        p = os.path.join(REPO, m, "go.sum")
        if os.path.exists(p):
            sums.update(open(p).read().splitlines())
    extra = os.path.join(hdir, "go.sum.extra")
    if os.path.exists(extra):
        sums.update(open(extra).read().splitlines())
    with open(os.path.join(hdir, "go.sum"), "w") as f:
        f.write("\n".join(sorted(s for s in sums if s.strip())) + "\n")
    out = os.path.join(BIN, "harness-race" if race else "harness")
    cmd = ["go", "build", "-tags", "verif"] + (["-race"] if race else []) + ["-o", out, "."]
    t = time.time()
    sh(cmd, cwd=hdir, env=goenv(), timeout=900)
    _built[key] = out
    return out


def build_cli():
    os.makedirs(BIN, exist_ok=True)
    outs = {}
    for name, sub in (("cdi", "cmd/cdi"), ("validate", "cmd/validate")):
        out = os.path.join(BIN, name)
        sh(["go", "build", "-o", out, "."], cwd=os.path.join(REPO, sub), env=goenv(), timeout=900)
        outs[name] = out
    return outs


STAT_RE = re.compile(r"^(\d+) states generated, (\d+) distinct states found, (\d+) states left on queue")
DEPTH_RE = re.compile(r"The depth of the complete state graph search is (\d+)")


class TLCResult:
    def __init__(self):
        self.generated = 0
        self.distinct = 0
        self.depth = 0
        self.rows = []
        self.violated = []      # invariant / property names
        self.errors = []
        self.raw_tail = ""
        self.wall = 0.0
        self.ok = False
        self.trace = []         # counter-example text lines


def run_apalache(module, cinit, init, inv, length, timeout=600):
    """apalache-mc check on spec/<module>.tla in a scratch directory. Returns "ok" or "violated";
    anything else (type error, time-out, crash) raises ToolFailure."""
    work = mkscratch("apalache")
    try:
        shutil.copy(os.path.join(SPEC, module + ".tla"), work)
        cmd = ["timeout", str(timeout), "apalache-mc", "check", "--cinit=" + cinit, "--init=" + init, "--inv=" + inv,
               "--length=%d" % length, "--out-dir=" + os.path.join(work, "out"), module + ".tla"]
        env = dict(os.environ)
        os.makedirs(os.path.join(work, "jtmp"), exist_ok=True)
        env.pop("JAVA_TOOL_OPTIONS", None)
        env["TMPDIR"] = os.path.join(work, "jtmp")   # the apalache-mc wrapper makes its java.io.tmpdir with mktemp -t
        p = subprocess.run(cmd, cwd=work, env=env, stdout=subprocess.PIPE, stderr=subprocess.STDOUT, text=True)
        out = p.stdout or ""
        if "The outcome is: NoError" in out and p.returncode == 0:
            return "ok"
        if "The outcome is: Error" in out and "invariant" in out and p.returncode == 12:
            return "violated"
        raise ToolFailure("apalache-mc failed rc=%d on %s (%s/%s/%s)\n%s" % (p.returncode, module, cinit, init, inv, out[-2500:]))
    finally:
        shutil.rmtree(work, ignore_errors=True)


def run_tlc(module, cfg, env_extra=None, workers=None, timeout=600, simulate=None, depth=None,
            seed=None, row_prefix="ROW", deadlock=False, extra_args=None, heap=None, keep=None):
    """Run TLC on spec/<module>.tla with spec/<cfg> in a scratch copy of spec/.
    Lines printed by the spec as PrintT(<<"ROW", ToJson(x)>>) or PrintT(ToJson(x)) are
    collected as rows. Returns a TLCResult; raises ToolFailure when TLC itself failed
    (parse error, evaluation error, OOM, timeout)."""
    work = mkscratch("tlc")
    res = TLCResult()
    try:
        sdir = os.path.join(work, "spec")
        shutil.copytree(SPEC, sdir)
        if keep:
            for k, v in keep.items():
                with open(os.path.join(sdir, k), "w") as f:
                    f.write(v)
        env = dict(os.environ)
        if env_extra:
            env.update({k: str(v) for k, v in env_extra.items()})
        jtmp = os.path.join(work, "jtmp")   # SANY unpacks the standard modules into java.io.tmpdir on every run
        os.makedirs(jtmp, exist_ok=True)
        jopts = "-Xss512m -Djava.io.tmpdir=%s" % jtmp
        if heap:
            jopts += " -Xmx%s" % heap
        env["JAVA_TOOL_OPTIONS"] = (env.get("JAVA_TOOL_OPTIONS", "") + " " + jopts).strip()
        cmd = ["timeout", str(timeout), "tlc", "-noGenerateSpecTE", "-metadir", os.path.join(work, "meta"),
               "-config", cfg]
        if simulate:
            cmd += ["-simulate", simulate]
            if depth:
                cmd += ["-depth", str(depth)]
        cmd += ["-workers", str(workers or NCPU)]
        if seed is not None:
            cmd += ["-seed", str(seed)]
        if deadlock:
            cmd += ["-deadlock"]
        if extra_args:
            cmd += extra_args
        cmd += [module]
        t = time.time()
        p = subprocess.Popen(cmd, cwd=sdir, env=env, stdout=subprocess.PIPE, stderr=subprocess.STDOUT, text=True)
        tail = []
        in_trace = False
        for line in p.stdout:
            line = line.rstrip("\n")
            if line.startswith('"{') or line.startswith('"['):
                try:
                    res.rows.append(json.loads(json.loads(line)))
                    continue
                except Exception:
                    pass
            m = STAT_RE.match(line)
            if m:
                res.generated, res.distinct = int(m.group(1)), int(m.group(2))
            m = DEPTH_RE.search(line)
            if m:
                res.depth = int(m.group(1))
            m = re.match(r"Error: Invariant (\S+) is violated", line)
            if m:
                res.violated.append(m.group(1))
                in_trace = True
            m = re.match(r"Error: Action property (\S+) is violated", line)
            if m:
                res.violated.append(m.group(1))
                in_trace = True
            m = re.match(r"Error: Temporal property (\S+) was violated", line)
            if m:
                res.violated.append(m.group(1))
                in_trace = True
            if "Temporal properties were violated" in line:
                res.violated.append("<temporal>")
                in_trace = True
            if line.startswith("Error:") and not res.violated:
                res.errors.append(line)
            if in_trace:
                res.trace.append(line)
            tail.append(line)
            if len(tail) > 400:
                tail.pop(0)
        rc = p.wait()
        res.wall = time.time() - t
        res.raw_tail = "\n".join(tail)
        if rc == 124:
            raise ToolFailure("TLC timed out after %ss on %s/%s" % (timeout, module, cfg))
        if rc != 0 and not res.violated:
            # simulation mode ends with rc 0; model checking with violation has rc 12/13
            raise ToolFailure("TLC failed rc=%d on %s/%s\n%s" % (rc, module, cfg, res.raw_tail[-3000:]))
        if res.errors and not res.violated:
            raise ToolFailure("TLC error on %s/%s\n%s" % (module, cfg, res.raw_tail[-3000:]))
        res.ok = not res.violated
        return res
    finally:
        shutil.rmtree(work, ignore_errors=True)
        for d in os.listdir(tempfile.gettempdir()):
            pass


def load_known():
    p = os.path.join(VERIF, "known_findings.json")
    if not os.path.exists(p):
        return {"findings": [], "fixed": []}
    return json.load(open(p))


def known_for(prop):
    return [f for f in load_known().get("findings", []) if f.get("property") == prop]


def write_evidence(prop, tier, seed, level, coverage, wall, violations=0, assumptions=None):
    os.makedirs(EVID, exist_ok=True)
    ev = {"property_id": prop, "tier": tier, "seed": int(seed), "level": level, "coverage": coverage,
          "assumptions": assumptions or [], "wall_s": round(wall, 2), "violations": int(violations)}
    tmp = os.path.join(EVID, ".%s.json.tmp" % prop)
    with open(tmp, "w") as f:
        json.dump(ev, f, indent=1, sort_keys=True, default=str)
    os.replace(tmp, os.path.join(EVID, "%s.json" % prop))


def write_replay(prop, obj):
    d = os.path.join(REPLAYS, prop)
    os.makedirs(d, exist_ok=True)
    blob = json.dumps(obj, sort_keys=True, default=str)
    h = hashlib.sha1(blob.encode()).hexdigest()[:12]
    p = os.path.join(d, "%s.json" % h)
    with open(p, "w") as f:
        f.write(blob)
    return p


def run_harness(sub, args, race=False, timeout=1800, env_extra=None, input=None):
    """Run a harness sub-command; it prints one JSON object on its last stdout line."""
    h = build_harness(race=race)
    env = goenv()
    env["VERIF_TMP"] = scratch_root()
    if env_extra:
        env.update({k: str(v) for k, v in env_extra.items()})
    cmd = [h, sub] + [str(a) for a in args]
    try:
        p = subprocess.run(cmd, env=env, stdout=subprocess.PIPE, stderr=subprocess.PIPE, text=True, timeout=timeout, input=input)
    except subprocess.TimeoutExpired:
        raise ToolFailure("harness %s timed out after %ss" % (sub, timeout))
    lines = [l for l in p.stdout.split("\n") if l.strip()]
    if p.returncode not in (0, 1) or not lines:
        raise ToolFailure("harness %s failed rc=%d\nstdout: %s\nstderr: %s" % (sub, p.returncode, p.stdout[-2000:], p.stderr[-4000:]))
    try:
        return json.loads(lines[-1]), p.stderr
    except Exception:
        raise ToolFailure("harness %s printed no JSON result\nstdout: %s\nstderr: %s" % (sub, p.stdout[-2000:], p.stderr[-4000:]))


def write_rows(rows, path):
    with open(path, "w") as f:
        for r in rows:
            f.write(json.dumps(r, sort_keys=True) + "\n")
