"""Linearizability of recorded concurrent executions (harness lin) against spec/CacheLin.tla.
A trace is accepted iff TLC reports NotDone violated (some behaviour consumed it entirely)."""
import json, os, concurrent.futures
import vlib
from vlib import run_tlc, ToolFailure

CFG = """SPECIFICATION TraceSpec
INVARIANTS IndexNotAhead NotDone
PROPERTIES Monotone
CHECK_DEADLOCK FALSE
"""


def validate_file(path):
    r = run_tlc("CacheLin", "lin.cfg", env_extra={"TRACE": path}, keep={"lin.cfg": CFG}, workers=1, timeout=900)
    return (r.violated == ["NotDone"]), r


def validate_events(events, name):
    f = os.path.join(vlib.OUT, "%d-%s.ndjson" % (os.getpid(), name))
    os.makedirs(vlib.OUT, exist_ok=True)
    vlib.write_rows(events, f)
    try:
        return validate_file(f)
    finally:
        os.unlink(f)


def longest_prefix(events, name):
    lo, hi = 1, len(events)
    while lo < hi:
        mid = (lo + hi + 1) // 2
        ok, _ = validate_events(events[:mid], name)
        if ok:
            lo = mid
        else:
            hi = mid - 1
    return lo


def explain(events, k):
    """the first entry the specification cannot explain (index k, 0-based) with the calls in flight and the last renames"""
    inflight, sw = {}, []
    for e in events[:k]:
        if e["e"] == "call":
            inflight[e["t"]] = e
        elif e["e"] == "ret":
            inflight.pop(e["t"], None)
        elif e["e"] in ("swb", "swe"):
            sw.append("%s %d" % (e["e"], e["v"]))
    bad = events[k] if k < len(events) else None
    call = inflight.get(bad["t"]) if bad and bad.get("e") == "ret" else None
    return {"entry": k + 1, "rejected": bad, "its_call": call, "other_calls_in_flight": [v for t, v in inflight.items() if not call or t != call["t"]], "last_renames": sw[-4:]}


def validate_dir(d, par=8):
    """returns (n_traces, n_events, [mismatch])"""
    files = sorted(f for f in os.listdir(d) if f.endswith(".ndjson"))
    mism, nev, states = [], 0, 0

    def one(f):
        p = os.path.join(d, f)
        ev = [json.loads(l) for l in open(p).read().split("\n") if l.strip()]
        ok, r = validate_file(p)
        return f, ev, ok, r
    with concurrent.futures.ThreadPoolExecutor(max_workers=par) as ex:
        for f, ev, ok, r in ex.map(one, files):
            nev += len(ev)
            states += r.distinct or 0
            if ok:
                continue
            if r.violated and r.violated != ["NotDone"]:
                mism.append({"what": "lin-model-invariant", "props": ["TOOL"], "case": -1, "step": -1, "want": "IndexNotAhead, Monotone", "got": r.violated,
                             "note": "the trace specification violated its own sanity invariant on " + f, "row": {"trace": ev}})
                continue
            k = longest_prefix(ev, "linpre")
            mism.append({"what": "not-linearizable", "props": ["C12"], "case": -1, "step": k,
                         "want": "some placement of the critical sections and of the renames explains every returned version (spec/CacheLin.tla)",
                         "got": explain(ev, k), "note": f, "row": {"trace": ev}})
    return len(files), nev, states, mism
