\* C03 quick: every edit list of <= 2 atoms x 4 initial specs x 3 host tables, exhaustive
SPECIFICATION Spec
CONSTANTS
  InitSpecs <- MCInitSpecs
  Hosts <- MCHosts
  EnvAtoms <- MCEnv
  NodeAtoms <- MCNodes
  MountAtoms <- MCMounts
  HookAtoms <- MCHooks
  GidAtoms <- MCGids
  RdtAtoms <- MCRdt
  MaxAtoms = 2
  EMIT = TRUE
INVARIANTS EnvOK NodesOK MountsOK RestOK EmitRow
