\* C15 quick: every single update (16 plugins x 15 ids x 8 device lists) on 5 initial maps, then Parse
SPECIFICATION Spec
CONSTANTS
  Plugins <- MCPlugins
  Ids <- MCIds
  DevLists <- MCDevLists
  InitMaps <- MCInitMaps
  MaxSteps = 1
  EMIT = TRUE
INVARIANTS KeysLegal EmitRow
PROPERTIES NeverOverwrite OneKeyPerStep
