------------------------------ MODULE MCInject ------------------------------
EXTENDS EditsInject

Ok(kind, ds, v) == [k |-> "ok", kind |-> kind, ds |-> ds, v |-> v]
NamesI == {"a.json", "b.json", "c.json"}
Empty == [nm \in NamesI |-> NoneC]
DirOf(e) == [st |-> "dir", ents |-> e]

\* the populations: each of the five files present or absent
\*   A/a.json k1 {x,y}   A/b.json k1 {z}   (same kind, two files)   A/c.json k1 {y} v2 (no spec-level edits; conflicts with a.json on y)
\*   B/a.json k1 {x}     (shadows x)        B/c.json k2 {x}
FA == [Empty EXCEPT !["a.json"] = Ok("k1", {"x", "y"}, 1)]
MCWorlds ==
  { [dirs |-> <<"A", "B">>,
     fs |-> [A |-> DirOf([nm \in NamesI |-> IF nm = "a.json" /\ s[1] THEN Ok("k1", {"x", "y"}, 1)
                                            ELSE IF nm = "b.json" /\ s[2] THEN Ok("k1", {"z"}, 1)
                                            ELSE IF nm = "c.json" /\ s[3] THEN Ok("k1", {"y"}, 2) ELSE NoneC]),
             B |-> DirOf([nm \in NamesI |-> IF nm = "a.json" /\ s[4] THEN Ok("k1", {"x"}, 1)
                                            ELSE IF nm = "c.json" /\ s[5] THEN Ok("k2", {"x"}, 1) ELSE NoneC])]]
    : s \in [1..5 -> BOOLEAN] }

Dev(path, ty, ma, mi, uid, gid, fm) == [path |-> path, type |-> ty, major |-> ma, minor |-> mi, uid |-> uid, gid |-> gid, fmode |-> fm]
Mnt(parts, src) == [dest |-> D2(parts), src |-> src, typ |-> ""]
NoHooks == [s \in Stages |-> <<>>]
P0 == [env |-> <<>>, proc |-> FALSE, uid |-> 0, gid |-> 0, gids |-> <<>>, devs |-> <<>>, rules |-> <<>>,
       mounts |-> <<>>, hooks |-> NoHooks, rdt |-> NoRdt2]
P1 == [env |-> <<[n |-> "SHARED", v |-> "orig"], [n |-> "Z", v |-> "keep"]>>, proc |-> TRUE, uid |-> 1000, gid |-> 0,
       gids |-> <<7, 12>>, devs |-> <<Dev("h1", "c", 1, 1, -1, -1, -1)>>,
       rules |-> <<[type |-> "c", major |-> 1, minor |-> 1, access |-> "rwm"]>>,
       mounts |-> <<Mnt(<<"deep", "er", "est">>, "s0"), Mnt(<<"m", "x">>, "s0"), Mnt(<<"a">>, "s0")>>,
       hooks |-> [NoHooks EXCEPT !["prestart"] = <<"orig">>],
       rdt |-> [set |-> TRUE, clos |-> "orig", l3 |-> "L3orig"]]
MCInitSpecsI == {P0, P1}

HS(k, ma, mi) == [k |-> k, major |-> ma, minor |-> mi]
HA == [h1 |-> HS("b", 8, 1), h2 |-> HS("c", 5, 2)]
HB == [h1 |-> HS("c", 9, 3), h2 |-> HS("c", 5, 2)]
HC == [h1 |-> HS("none", 0, 0), h2 |-> HS("c", 5, 2)]
AllTrue == [i \in 1..5 |-> TRUE]
OnlyBc == [i \in 1..5 |-> i = 5]
NoShadow == [i \in 1..5 |-> i \in {1, 2}]
World(s) == CHOOSE w \in MCWorlds : w = [dirs |-> <<"A", "B">>,
     fs |-> [A |-> DirOf([nm \in NamesI |-> IF nm = "a.json" /\ s[1] THEN Ok("k1", {"x", "y"}, 1)
                                            ELSE IF nm = "b.json" /\ s[2] THEN Ok("k1", {"z"}, 1)
                                            ELSE IF nm = "c.json" /\ s[3] THEN Ok("k1", {"y"}, 2) ELSE NoneC]),
             B |-> DirOf([nm \in NamesI |-> IF nm = "a.json" /\ s[4] THEN Ok("k1", {"x"}, 1)
                                            ELSE IF nm = "c.json" /\ s[5] THEN Ok("k2", {"x"}, 1) ELSE NoneC])]]
C14Worlds == { World(AllTrue), World(OnlyBc), World(NoShadow) }
MCInitSpecsP1 == {P1}
MCHosts1 == {HA}
HD == [h1 |-> HS("b", 8, 7), h2 |-> HS("c", 5, 2)]
MCHosts3 == {HA, HB, HC, HD}
=============================================================================
