\* C03 thorough: every edit list of <= 3 atoms x 6 initial specs x 3 host tables, exhaustive
SPECIFICATION Spec
CONSTANTS
  InitSpecs <- MCInitSpecs
  Hosts <- MCHosts
  EnvAtoms <- MCEnv
  NodeAtoms <- MCNodes
  MountAtoms <- MCMounts
  HookAtoms <- MCHooks
  GidAtoms <- MCGids
  RdtAtoms <- MCRdt
  MaxAtoms = 3
  EMIT = TRUE
INVARIANTS EnvOK NodesOK MountsOK RestOK EmitRow
