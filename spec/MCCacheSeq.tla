----------------------------- MODULE MCCacheSeq -----------------------------
(* Bounded universes for CacheSeq (constants that a .cfg cannot express). *)
EXTENDS CacheSeq

Ok(kind, ds, v) == [k |-> "ok", kind |-> kind, ds |-> ds, v |-> v]
Bad(k) == [k |-> k, kind |-> "", ds |-> {}, v |-> 0]

\* quick: 2 directories, 2 Spec names, 1 noise name
\* (a directory may be listed again after another one: its later position counts)
QDirLists == { <<"A">>, <<"A", "B">>, <<"B", "A">>, <<"A", "A">>, <<"A", "B", "A">>, <<>> }
QContents == { Ok("k1", {"x"}, 1), Ok("k1", {"y"}, 1), Ok("k1", {"x", "y"}, 1), Ok("k2", {"x"}, 1), Bad("syntax") }
QNoise    == { Ok("k1", {"x", "y"}, 1) }
QOrder    == << "a.json", "b.yaml", "n.txt" >>
\* "pad": the name of a model device with white space around it (not a qualified name: never resolves)
QTokens   == { [t |-> "q", kind |-> "k1", d |-> "x"], [t |-> "q", kind |-> "k1", d |-> "y"],
               [t |-> "unk", kind |-> "", d |-> ""], [t |-> "bad", kind |-> "", d |-> ""],
               [t |-> "pad", kind |-> "k1", d |-> "x"] }
QRequests == { <<a>> : a \in QTokens } \cup { <<a, b>> : a \in QTokens, b \in QTokens }
\* long requests (C04: "exactly the unresolvable names, in request order" however many they are): every pair of tokens
\* alternating to length 9, every token repeated to length 12 and 17
Rep9(a, b) == <<a, b, a, b, a, b, a, b, a>>
Rep12(a)   == <<a, a, a, a, a, a, a, a, a, a, a, a>>
Rep17(a, b) == <<a, a, a, a, a, a, a, a, b, a, a, a, a, a, a, a, b>>
QRequestsL == QRequests \cup { Rep9(a, b) : a \in QTokens, b \in QTokens } \cup { Rep12(a) : a \in QTokens }
              \cup { Rep17(a, b) : a \in QTokens \ { [t |-> "q", kind |-> "k1", d |-> "y"] }, b \in { [t |-> "q", kind |-> "k1", d |-> "y"], [t |-> "unk", kind |-> "", d |-> ""] } }

\* requests for random histories (few, so that Refresh is taken often)
SRequests == { <<[t |-> "q", kind |-> "k1", d |-> "x"], [t |-> "unk", kind |-> "", d |-> ""], [t |-> "q", kind |-> "k1", d |-> "y"]>>,
               <<[t |-> "q", kind |-> "k1", d |-> "y"], [t |-> "q", kind |-> "k2", d |-> "x"]>> }

\* history contents: a second version of a content so that a rewrite is visible
Lnk(kind, ds, v) == [k |-> "linkok", kind |-> kind, ds |-> ds, v |-> v]
HContents == QContents \cup { Ok("k1", {"x"}, 2), Bad("semantic"), Bad("empty"), Bad("dangling"), Lnk("k1", {"x"}, 1),
                              Lnk("k1", {"y"}, 2), Bad("linkdir"), Bad("dirent"), Bad("blank"), Bad("nodoc"), Bad("nulldoc") }

\* thorough: 3 directories, 3 kinds, more faults
TDirLists == { <<"A">>, <<"A", "B">>, <<"B", "A">>, <<"A", "A">>, <<"A", "B", "C">>, <<"C", "A", "B">>,
               <<"A", "B", "A">>, <<"B", "B", "A">> }
TContents == { Ok("k1", {"x"}, 1), Ok("k1", {"y"}, 1), Ok("k1", {"x", "y"}, 1), Ok("k2", {"x"}, 1),
               Ok("k3", {"x", "y"}, 1), Bad("syntax"), Bad("semantic") }
TOrder    == << "a.json", "b.yaml", "c.json", "n.txt", "sub", "t.tmp" >>
TTokens   == QTokens \cup { [t |-> "q", kind |-> "k2", d |-> "x"], [t |-> "empty", kind |-> "", d |-> ""] }
TRequests == { <<a>> : a \in TTokens } \cup { <<a, b>> : a \in TTokens, b \in TTokens }
             \cup { <<a, b, c>> : a \in TTokens, b \in TTokens, c \in TTokens }

InjDirLists == { <<"A", "B">> }
InjContents == { Ok("k1", {"x"}, 1), Ok("k1", {"x", "y"}, 1), Bad("syntax") }

\* thorough generation universes
T0DirLists == TDirLists
T0Contents == { Ok("k1", {"x"}, 1), Ok("k1", {"x", "y"}, 1), Ok("k2", {"x"}, 1), Bad("syntax") }
T0Order    == << "a.json", "b.yaml" >>
T0Order3   == << "a.json", "b.yaml", "c.json" >>
T1DirLists == { <<"A", "B">>, <<"B", "A">>, <<"A", "A">> }
T1Contents == { Ok("k1", {"x"}, 1), Ok("k1", {"y"}, 1), Ok("k1", {"x", "y"}, 1), Bad("syntax"), Bad("dangling") }
\* quick: one directory (listed once or twice), three Spec names: three-way conflicts, links, a directory named like a Spec
Q3DirLists == { <<"A">>, <<"A", "A">> }
Q3Contents == { Ok("k1", {"x"}, 1), Ok("k1", {"x", "y"}, 1), Lnk("k1", {"x"}, 1), Bad("syntax"), Bad("linkdir"), Bad("dirent"), Bad("dangling"), Bad("nodoc") }
T1Order    == << "a.json", "b.yaml", "c.json", "sub" >>
\* permissions (the harness runs this universe as an unprivileged user): unreadable files and directories
PDirLists == { <<"A">>, <<"A", "B">>, <<"B", "A">> }
PContents == { Ok("k1", {"x"}, 1), Ok("k1", {"x", "y"}, 1), Bad("noperm"), Bad("syntax") }
PWContents == { Ok("k1", {"x"}, 2), Ok("k1", {"y"}, 1), Bad("noperm") }
\* "every later repair": one directory, every kind of failing entry,
\* then one change of one entry (repair, break, replace, remove) and a refresh
RDirLists == { <<"A">> }
RContents == { Ok("k1", {"x"}, 1), Lnk("k1", {"x"}, 1), Bad("syntax"), Bad("semantic"), Bad("empty"), Bad("dangling"),
               Bad("linkdir"), Bad("dirent"), Bad("blank"), Bad("nodoc"), Bad("nulldoc") }
RWContents == { Ok("k1", {"x"}, 2), Ok("k1", {"y"}, 1), Lnk("k1", {"x"}, 2), Bad("syntax"), Bad("dangling"), Bad("nodoc") }
T2DirLists == { <<"A">> }
T2Order    == << "U.JSON", "a.json", "n.txt", "noext", "sub", "t.tmp", "x.json.bak" >>
T2Contents == { Ok("k1", {"x"}, 1), Bad("empty"), Bad("semantic"), Bad("nodoc"), Bad("nulldoc") }
=============================================================================
