------------------------------- MODULE FSTrace -------------------------------
(* C10, trace validation: a generic file-system trace specification.  It knows nothing  *)
(* about the writer's protocol: its actions are the system calls themselves, as recorded *)
(* by strace from the real writer (tools/strace2ndjson.py), so a refactoring that keeps   *)
(* the property (an extra fsync, linkat instead of rename) is still accepted, while       *)
(* writing in place or a temporary file with a Spec extension violates an invariant in    *)
(* the very state where it happens.  Every state of the trace is a possible crash state   *)
(* and a possible view of a concurrent reader.                                            *)
(*                                                                                       *)
(* Events (ndjson): reset{newlen} exists{name,spec,len} create{name,spec,fd}              *)
(* opentrunc{name,spec,fd} openwrite{name,spec,fd} write{fd,total} close{fd}              *)
(* rename{name,to,spec} link{name,to,spec} unlink{name} other{}                           *)
EXTENDS Naturals, Sequences, FiniteSets, TLC, Json, IOUtils

Trace == ndJsonDeserialize(IOEnv.TRACE)

VARIABLES l,      \* position in Trace
          dir,    \* name -> inode (0 = absent)
          spec,   \* name -> does the name have a Spec extension
          ino,    \* inode -> [kind, len, full]   kind: "old" complete previous content, "new" being written, "mixed" overwritten in place
          fds,    \* fd -> inode
          nino, newlen

vars == <<l, dir, spec, ino, fds, nino, newlen>>

Has(e, f) == f \in DOMAIN e
NameSet == { Trace[i].name : i \in { j \in 1..Len(Trace) : Has(Trace[j], "name") } }
           \cup { Trace[i].to : i \in { j \in 1..Len(Trace) : Has(Trace[j], "to") } }
FdSet == { Trace[i].fd : i \in { j \in 1..Len(Trace) : Has(Trace[j], "fd") } }
MaxIno == Len(Trace) + 1
NoIno == [kind |-> "none", len |-> 0, full |-> 0]

Ev == Trace[l]
Is(e) == l <= Len(Trace) /\ Ev.ev = e /\ l' = l + 1

Fresh == /\ dir = [n \in NameSet |-> 0] /\ spec = [n \in NameSet |-> FALSE]
         /\ ino = [i \in 1..MaxIno |-> NoIno] /\ fds = [f \in FdSet |-> 0] /\ nino = 1 /\ newlen = 0
Init == l = 1 /\ Fresh

\* a new trace starts: forget everything
Reset == /\ Is("reset")
         /\ dir' = [n \in NameSet |-> 0] /\ spec' = [n \in NameSet |-> FALSE]
         /\ ino' = [i \in 1..MaxIno |-> NoIno] /\ fds' = [f \in FdSet |-> 0] /\ nino' = 1
         /\ newlen' = Ev.newlen

Exists == /\ Is("exists")
          /\ dir' = [dir EXCEPT ![Ev.name] = nino] /\ spec' = [spec EXCEPT ![Ev.name] = Ev.spec]
          /\ ino' = [ino EXCEPT ![nino] = [kind |-> "old", len |-> Ev.len, full |-> Ev.len]]
          /\ nino' = nino + 1 /\ UNCHANGED <<fds, newlen>>

Create == /\ Is("create") /\ dir[Ev.name] = 0
          /\ dir' = [dir EXCEPT ![Ev.name] = nino] /\ spec' = [spec EXCEPT ![Ev.name] = Ev.spec]
          /\ ino' = [ino EXCEPT ![nino] = [kind |-> "new", len |-> 0, full |-> newlen]]
          /\ fds' = [fds EXCEPT ![Ev.fd] = nino] /\ nino' = nino + 1 /\ UNCHANGED newlen

OpenTrunc == /\ Is("opentrunc") /\ dir[Ev.name] # 0
             /\ ino' = [ino EXCEPT ![dir[Ev.name]] = [kind |-> "new", len |-> 0, full |-> newlen]]
             /\ fds' = [fds EXCEPT ![Ev.fd] = dir[Ev.name]] /\ UNCHANGED <<dir, spec, nino, newlen>>

OpenWrite == /\ Is("openwrite") /\ dir[Ev.name] # 0
             /\ fds' = [fds EXCEPT ![Ev.fd] = dir[Ev.name]] /\ UNCHANGED <<dir, spec, ino, nino, newlen>>

Write == /\ Is("write") /\ fds[Ev.fd] # 0
         /\ ino' = [ino EXCEPT ![fds[Ev.fd]] =
                      IF @.kind = "new" THEN [@ EXCEPT !.len = Ev.total] ELSE [@ EXCEPT !.kind = "mixed"]]
         /\ UNCHANGED <<dir, spec, fds, nino, newlen>>

Close == /\ Is("close") /\ fds' = [fds EXCEPT ![Ev.fd] = 0] /\ UNCHANGED <<dir, spec, ino, nino, newlen>>

Rename == /\ Is("rename") /\ dir[Ev.name] # 0
          /\ dir' = [dir EXCEPT ![Ev.to] = dir[Ev.name], ![Ev.name] = 0]
          /\ spec' = [spec EXCEPT ![Ev.to] = Ev.spec] /\ UNCHANGED <<ino, fds, nino, newlen>>

Link == /\ Is("link") /\ dir[Ev.name] # 0
        /\ dir' = [dir EXCEPT ![Ev.to] = dir[Ev.name]]
        /\ spec' = [spec EXCEPT ![Ev.to] = Ev.spec] /\ UNCHANGED <<ino, fds, nino, newlen>>

Unlink == /\ Is("unlink") /\ dir' = [dir EXCEPT ![Ev.name] = 0] /\ UNCHANGED <<spec, ino, fds, nino, newlen>>

Other == Is("other") /\ UNCHANGED <<dir, spec, ino, fds, nino, newlen>>

Next == Reset \/ Exists \/ Create \/ OpenTrunc \/ OpenWrite \/ Write \/ Close \/ Rename \/ Link \/ Unlink \/ Other
Spec == Init /\ [][Next]_vars

Complete(i) == ino[i].kind \in {"old", "new"} /\ ino[i].len = ino[i].full
\* C10 in every state of the trace: a Spec-named entry holds a complete previous or complete new content
NoPartialVisible == \A n \in NameSet : (spec[n] /\ dir[n] # 0) => Complete(dir[n])
\* an inode visible under a Spec name is never written
ImmutableVisible == [][\A n \in NameSet : (spec[n] /\ dir[n] # 0 /\ dir'[n] = dir[n] /\ l' # 1 /\ ~(l <= Len(Trace) /\ Trace[l].ev = "reset"))
                          => ino'[dir[n]] = ino[dir[n]]]_vars
\* the whole trace was consumed
TraceAccepted == TLCGet("stats").diameter - 1 = Len(Trace)
=============================================================================
