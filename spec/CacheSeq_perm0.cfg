\* C13 (C01): unreadable files and directories - every population x directory list, NewCache and one Refresh.
\* Replayed by a harness process that has given up root (VERIF_UID=65534), so that file modes are enforced.
SPECIFICATION Spec
CONSTANTS
  DirIds = {"A", "B"}
  DirLists <- PDirLists
  InitStates = {"dir", "noperm", "missing"}
  SpecNames = {"a.json", "b.yaml"}
  NoiseNames = {"n.txt"}
  NameOrder <- QOrder
  Kinds = {"k1"}
  Devs = {"x", "y"}
  Contents <- PContents
  WContents <- PWContents
  NoiseContents = {}
  Requests <- QRequests
  MaxOps = 0
  MaxPending = 1
  BUG_F5 = FALSE
  BUG_F6 = FALSE
  OPS = {"fs", "chmod", "refresh"}
  EMIT = TRUE
INVARIANTS TypeOK PrecedenceOK IsolationOK EmitRow
