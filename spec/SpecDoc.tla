------------------------------ MODULE SpecDoc ------------------------------
(* C05 / C06: the abstract CDI Spec document, its admission rule and its minimum     *)
(* required version, transcribed from SPEC.md and the property statements.           *)
(*                                                                                  *)
(* A document is a record of *tokens*: every slot (version, kind, a device name, one *)
(* env entry, one device node ...) holds the name of a concrete spelling; the        *)
(* harness renders tokens as JSON/YAML text.  For every token class this module      *)
(* says which tokens are well-formed and which version they need.                    *)
(*                                                                                  *)
(*   doc  == [ver, kind, ann, edits, devs : Seq(dev), devform, xtra]                 *)
(*   dev  == [name, ann, edits, xtra]                                                *)
(*   edits== [present, env, nodes, mounts, hooks : Seq(token), rdt, gids, xtra]      *)
EXTENDS Naturals, Sequences, FiniteSets

Max(a, b) == IF a > b THEN a ELSE b

-----------------------------------------------------------------------------
(* versions: rank 0 = not a released version *)
Released == <<"0.1.0", "0.2.0", "0.3.0", "0.4.0", "0.5.0", "0.6.0", "0.7.0", "0.8.0", "1.0.0">>
VerRank(t) == IF \E i \in 1..Len(Released) : Released[i] = t
              THEN CHOOSE i \in 1..Len(Released) : Released[i] = t ELSE 0
BadVers == {"missing", "unreleased", "short", "rc", "space", "empty", "patch", "number", "major"}
MinRank == 3   \* 0.3.0

-----------------------------------------------------------------------------
(* token classes: Good = well-formed; Need = rank of the version the token needs *)

KindGood == {"plain", "onev", "onec", "dotted", "under"}
KindBad  == {"missing", "noslash", "emptyv", "emptyc", "twoslash", "digitv", "dashv", "dotend", "undend", "blank", "utf", "number"}
KindNeed(t) == IF t = "dotted" THEN 6 ELSE 3

NameGood == {"x", "digit", "punct", "one"}
NameBad  == {"missing", "empty", "lead", "trail", "blank", "slash", "eq", "utf", "dup"}
NameNeed(t) == IF t = "digit" THEN 5 ELSE 3

\* annotations: "none" member absent, "null" JSON null, "empty" {}: no annotations at all
\* "multiline": a value with line breaks and non-ASCII text (values are free-form)
AnnGood == {"none", "null", "empty", "simple", "prefixed", "n63", "two", "multiline"}
\* "sumlarge": three values of 100 kB - each below the 256 kB limit, together above it
AnnBad  == {"emptykey", "n64", "badprefix", "threeparts", "leaddash", "toolarge", "sumlarge", "list"}
AnnNeed(t) == IF t \in {"simple", "prefixed", "n63", "two", "multiline"} THEN 6 ELSE 3

\* "multiline": a value with a line break; "unicode": non-ASCII name and value; "spaces": blanks around name and value
EnvGood == {"ok", "emptyval", "twoeq", "multiline", "unicode", "spaces", "ctl"}   \* "ctl": DEL and a C1 control in the value
EnvBad  == {"noeq", "noname", "empty", "null", "number"}

NodeGood == {"path", "typed", "blk", "unbuf", "fifo", "perm", "permall", "permlong", "owner", "hostpath"}
\* "multitype": two of the valid type letters ("bc")
NodeBad  == {"null", "nopath", "emptypath", "badtype", "multitype", "badperm", "strmajor", "unknown", "list"}
NodeNeed(t) == IF t = "hostpath" THEN 5 ELSE 3

MountGood == {"ok", "opts", "typed", "richopts"}   \* "richopts": options with '=', ',', a blank and a line break
MountBad  == {"null", "nohost", "emptyhost", "nocont", "emptycont", "unknown", "number"}
MountNeed(t) == IF t = "typed" THEN 4 ELSE 3

\* "rich": arguments and environment values with line breaks and non-ASCII text
HookGood == {"prestart", "createRuntime", "createContainer", "startContainer", "poststart", "poststop", "full", "rich"}
HookBad  == {"null", "badstage", "nostage", "nopath", "emptypath", "badenv", "unknown", "strtimeout"}

\* "none" member absent, "null" JSON null: no RDT edit; every other token is an RDT edit
RdtGood == {"none", "null", "empty", "clos", "full"}
RdtBad  == {"dot", "dotdot", "slash", "newline", "long", "unknown", "number"}
RdtNeed(t) == IF t \in {"none", "null"} THEN 3 ELSE 7

GidGood == {"five", "zero", "max"}
GidBad  == {"neg", "big", "string"}

XGood == {"none"}
XBad  == {"extra"}

\* the form of the devices member itself
DevFormGood == {"list"}
DevFormBad  == {"missing", "null", "emptylist", "nullentry", "object"}

-----------------------------------------------------------------------------
AllIn(s, G) == \A i \in 1..Len(s) : s[i] \in G

EditsGood(e) ==
  /\ AllIn(e.env, EnvGood) /\ AllIn(e.nodes, NodeGood) /\ AllIn(e.mounts, MountGood)
  /\ AllIn(e.hooks, HookGood) /\ e.rdt \in RdtGood /\ AllIn(e.gids, GidGood) /\ e.xtra \in XGood

\* "non-empty edits": at least one edit of some kind (an RDT edit counts, even an empty object)
EditsNonEmpty(e) ==
  e.present /\ (Len(e.env) + Len(e.nodes) + Len(e.mounts) + Len(e.hooks) + Len(e.gids) > 0 \/ e.rdt \notin {"none", "null"})

MaxOver(s, i, F(_)) == LET S == { F(s[j]) : j \in i..Len(s) } \cup {3} IN CHOOSE m \in S : \A x \in S : x <= m

\* only well-formed tokens carry a meaning; a slot that is absent needs nothing
EditsNeed(e) ==
  IF ~e.present THEN 3
  ELSE Max(Max(MaxOver(e.nodes, 1, NodeNeed), MaxOver(e.mounts, 1, MountNeed)),
           Max(RdtNeed(e.rdt), IF Len(e.gids) > 0 THEN 7 ELSE 3))

DevNeed(d) == Max(Max(NameNeed(d.name), AnnNeed(d.ann)), EditsNeed(d.edits))

RECURSIVE DevsNeed(_, _)
DevsNeed(devs, i) == IF i > Len(devs) THEN 3 ELSE Max(DevNeed(devs[i]), DevsNeed(devs, i + 1))

\* C06: the highest introduction version among all features used anywhere
Required(doc) ==
  Max(Max(KindNeed(doc.kind), AnnNeed(doc.ann)),
      Max(EditsNeed(doc.edits), IF doc.devform = "list" THEN DevsNeed(doc.devs, 1) ELSE 3))

VersionValid(doc) == VerRank(doc.ver) >= Max(MinRank, Required(doc))

DevGood(d) == /\ d.name \in NameGood /\ d.ann \in AnnGood /\ d.xtra \in XGood
              /\ EditsGood(d.edits) /\ EditsNonEmpty(d.edits)

\* C05: admitted iff well-formed
Admissible(doc) ==
  /\ doc.xtra \in XGood
  /\ doc.kind \in KindGood
  /\ doc.ann \in AnnGood
  /\ (doc.edits.present => EditsGood(doc.edits))
  /\ doc.devform \in DevFormGood
  /\ Len(doc.devs) >= 1
  /\ \A i \in 1..Len(doc.devs) : DevGood(doc.devs[i])   \* names are unique by construction unless the token is "dup"
  /\ VersionValid(doc)

\* everything but the version rule
WellFormed(doc) ==
  /\ doc.xtra \in XGood /\ doc.kind \in KindGood /\ doc.ann \in AnnGood
  /\ (doc.edits.present => EditsGood(doc.edits)) /\ doc.devform \in DevFormGood /\ Len(doc.devs) >= 1
  /\ \A i \in 1..Len(doc.devs) : DevGood(doc.devs[i])

\* a permutation of the devices
Permute(doc, p) == [doc EXCEPT !.devs = [i \in 1..Len(doc.devs) |-> doc.devs[p[i]]]]
Perms(k) == { p \in [1..k -> 1..k] : \A i, j \in 1..k : p[i] = p[j] => i = j }
=============================================================================
