\* two writers, 3 chunks, with a previous file
SPECIFICATION Spec
CONSTANTS
  Writers = {"w1", "w2"}
  Chunks = 3
  HasOld = TRUE
  Sizes = {1, 3}
  BUG_FIXEDTMP = FALSE
  BUG_INPLACE = FALSE
  BUG_TMPEXT = FALSE
  BUG_NOCLEAN = FALSE
INVARIANTS NoPartialVisible ScannerSeesWhole AfterFailure Published
PROPERTIES ImmutableVisible
