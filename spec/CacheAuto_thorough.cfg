\* C11 thorough: one directory, <= 6 file-system operations, liveness under fairness
SPECIFICATION Spec
CONSTANTS
  D = {"A"}
  DirOptions = {{"A"}}
  MaxFsOps = 6
  MaxConfs = 0
  MaxWids = 1
  STARTS = {TRUE, FALSE}
  WithTmp = TRUE
  WithShortage = FALSE
  WithRenameAway = FALSE
  FIX_CREATE = TRUE
  FIX_READD = TRUE
  FIX_STALE = TRUE
  FIX_RENAMEDIR = TRUE
  FIX_SCANWATCHED = TRUE
  FIX_RETRY = TRUE
  FIX_OVERFLOW = TRUE
  LooseFilter = FALSE
  QMax = 99
  RECORD = FALSE
INVARIANTS TypeOK Bounded WatchesOK
PROPERTIES Converges ErrConverges Settles ConfigureFresh
