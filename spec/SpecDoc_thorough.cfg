\* C05/C06 thorough: four base documents, every single-slot change
SPECIFICATION Spec
CONSTANTS
  BaseDocs <- MCBaseThorough
  Versions <- AllVersions
  MaxMut = 1
  EMIT = TRUE
VIEW ViewDoc
INVARIANTS BasesAdmissible OrderFree Bounds EmitRow
