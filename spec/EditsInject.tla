----------------------------- MODULE EditsInject -----------------------------
(* C02 / C14: injection = Apply of the ordered composition of the selected Specs' and  *)
(* devices' edits; the cache (and the host-dependent completion of device nodes) is    *)
(* never changed by an injection.                                                      *)
(*                                                                                    *)
(* A world is a directory list plus a population in the format of module Resolve;      *)
(* the edits of a file and of its devices are a function of (directory, name, content) *)
(* so that every edit in a result names its origin.  Which file a device resolves to   *)
(* is decided by Resolve!ResolveDev - the precedence rule, not a second copy of it.    *)
EXTENDS Edits, Resolve, Json

CONSTANTS Worlds,      \* set of [dirs, fs]
          SpecNames, Kinds, Devs,
          InitSpecs, Hosts, MaxReq, MaxSteps, WithHostChanges, EMIT

VARIABLES world, host, hist, n
vars == <<world, host, hist, n>>

Tag(dir, name) == dir \o "_" \o name
NoRdt2 == [set |-> FALSE, clos |-> "", l3 |-> ""]
D2(parts) == [abs |-> TRUE, parts |-> parts]

\* spec-level edits of the file <dir, name> with content c (files of version 2 have none)
SpecEdits(dir, name, c) ==
  IF c.v = 2 THEN NoEdits
  ELSE LET t == Tag(dir, name) IN
  [env    |-> <<[n |-> "SHARED", v |-> "spec-" \o t], [n |-> "S_" \o t, v |-> "1"]>>,
   nodes  |-> <<>>,
   mounts |-> <<[dest |-> D2(<<"m", "spec-" \o t>>), src |-> t, typ |-> ""]>>,
   hooks  |-> <<[stage |-> "prestart", path |-> "spec-" \o t]>>,
   gids   |-> IF dir = "A" THEN <<11>> ELSE <<>>,
   rdt    |-> IF name = "a.json" THEN [set |-> TRUE, clos |-> "spec-" \o t, l3 |-> ""] ELSE NoRdt2]

DevEdits(dir, name, c, d) ==
  LET t == Tag(dir, name) \o "_" \o d IN
  [env    |-> <<[n |-> "SHARED", v |-> "dev-" \o t], [n |-> "D_" \o d, v |-> t]>>,
   \* x: nothing specified, completed from the host at every injection; y: fully specified (z: below)
   nodes  |-> IF d = "x" THEN <<[path |-> "h1", host |-> "", type |-> "", major |-> 0, minor |-> 0, perm |-> "", uid |-> -1, gid |-> -1, fmode |-> -1]>>
              ELSE IF d = "y" THEN <<[path |-> "h2", host |-> "", type |-> "c", major |-> 4, minor |-> 2, perm |-> "rw", uid |-> -1, gid |-> -1, fmode |-> -1]>>
              \* z: type and host path given, numbers left to the host
              ELSE <<[path |-> "h2", host |-> "h1", type |-> "b", major |-> 0, minor |-> 0, perm |-> "r", uid |-> -1, gid |-> -1, fmode |-> -1]>>,
   mounts |-> <<[dest |-> D2(<<"m", d>>), src |-> t, typ |-> ""], [dest |-> D2(<<"dev-" \o d>>), src |-> t, typ |-> ""]>>,
   hooks  |-> <<[stage |-> "prestart", path |-> "dev-" \o t], [stage |-> "createRuntime", path |-> "dev-" \o t]>>,
   gids   |-> IF d = "z" THEN <<12, 13>> ELSE <<>>,
   rdt    |-> IF d = "z" THEN [set |-> TRUE, clos |-> "dev-" \o t, l3 |-> "z"] ELSE NoRdt2]

QNs == Kinds \X Devs
Res(w, q) == ResolveDev(w.fs, w.dirs, SpecNames, q[1], q[2])
Resolvable(w) == { q \in QNs : Res(w, q).p # 0 }

\* the ordered composition: spec-level edits once per file, the first time one of its devices is met
RECURSIVE Compose(_, _, _, _, _)
Compose(w, req, i, seen, acc) ==
  IF i > Len(req) THEN acc
  ELSE LET r    == Res(w, req[i])
           dir  == w.dirs[r.p]
           file == <<r.p, r.f>>
           c    == w.fs[dir].ents[r.f]
           a1   == IF file \in seen THEN acc ELSE AppendEdits(acc, SpecEdits(dir, r.f, c))
       IN Compose(w, req, i + 1, seen \cup {file}, AppendEdits(a1, DevEdits(dir, r.f, c, req[i][2])))

InjectResult(w, req, o, h) == Apply(o, Compose(w, req, 1, {}, NoEdits), h)

\* ordered selections of distinct resolvable devices
RECURSIVE SeqsUpTo(_, _)
SeqsUpTo(S, k) == IF k = 0 THEN {<<>>}
                  ELSE LET shorter == SeqsUpTo(S, k - 1) IN
                       shorter \cup { Append(s, x) : s \in { t \in shorter : Len(t) = k - 1 }, x \in S }
Distinct(s) == \A i, j \in 1..Len(s) : s[i] = s[j] => i = j
RequestsOf(w) == { s \in SeqsUpTo(Resolvable(w), MaxReq) : Len(s) > 0 /\ Distinct(s) }

NoStepRes == [env |-> <<>>, gids |-> <<>>, devs |-> <<>>, rules |-> <<>>, mounts |-> <<>>,
              hooks |-> [s \in Stages |-> <<>>], rdt |-> NoRdt2]

Init == world \in Worlds /\ host \in Hosts /\ hist = <<>> /\ n = 0

Inject(req, o) ==
  /\ n < MaxSteps /\ n' = n + 1
  /\ LET r == InjectResult(world, req, o, host) IN
     hist' = Append(hist, [op |-> "inject", req |-> req, o0 |-> o, host |-> host, ok |-> r.ok,
                           exp |-> IF r.ok THEN OciView(r.o) ELSE OciView(o)])
  /\ UNCHANGED <<world, host>>

\* the host device nodes change between two injections (C14: nothing is remembered)
ChangeHost(h) ==
  /\ WithHostChanges /\ n < MaxSteps /\ n > 0 /\ n' = n + 1 /\ h # host
  /\ hist[Len(hist)].op = "inject"
  /\ host' = h
  /\ hist' = Append(hist, [op |-> "host", req |-> <<>>, o0 |-> hist[1].o0, host |-> h, ok |-> TRUE, exp |-> hist[1].exp])
  /\ UNCHANGED world

Next == \/ \E req \in RequestsOf(world), o \in InitSpecs : Inject(req, o)
        \/ \E h \in Hosts : ChangeHost(h)
Spec == Init /\ [][Next]_vars

\* the file list handed to the harness: everything it needs to materialise the world
Files(w) == { [dir |-> d, name |-> nm, kind |-> w.fs[d].ents[nm].kind,
               spec |-> SpecEdits(d, nm, w.fs[d].ents[nm]),
               devs |-> { [name |-> dv, edits |-> DevEdits(d, nm, w.fs[d].ents[nm], dv)] : dv \in w.fs[d].ents[nm].ds }]
              : <<d, nm>> \in { <<d, nm>> \in (DOMAIN w.fs) \X SpecNames : w.fs[d].ents[nm].k \in ValidKinds } }

\* C02 on the oracle itself: edits of unrequested devices and of shadowed or uninvolved files never appear
OriginsOK ==
  \A i \in 1..Len(hist) : (hist[i].op = "inject" /\ hist[i].ok) =>
     LET hs == hist[i].exp.hooks["prestart"]
         wanted == { "dev-" \o Tag(world.dirs[Res(world, q).p], Res(world, q).f) \o "_" \o q[2] : q \in { hist[i].req[k] : k \in 1..Len(hist[i].req) } }
                   \cup { "spec-" \o Tag(world.dirs[Res(world, q).p], Res(world, q).f) : q \in { r \in { hist[i].req[k] : k \in 1..Len(hist[i].req) } : world.fs[world.dirs[Res(world, r).p]].ents[Res(world, r).f].v # 2 } }
     IN { hs[k] : k \in 1..Len(hs) } \ { hist[i].o0.hooks["prestart"][k] : k \in 1..Len(hist[i].o0.hooks["prestart"]) } = wanted

EmitRow == (EMIT /\ n = MaxSteps) => PrintT(ToJson([dirs |-> world.dirs, files |-> Files(world), hist |-> hist]))
=============================================================================
