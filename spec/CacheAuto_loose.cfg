\* C11, loose existence filter: one directory (present or missing at start), Spec name + temporary name, 2 contents, <= 4 file-system operations
SPECIFICATION Spec
CONSTANTS
  D = {"A"}
  DirOptions = {{"A"}}
  MaxFsOps = 4
  MaxConfs = 0
  MaxWids = 1
  STARTS = {TRUE, FALSE}
  WithTmp = TRUE
  WithShortage = FALSE
  WithRenameAway = FALSE
  FIX_CREATE = TRUE
  FIX_READD = TRUE
  FIX_STALE = TRUE
  FIX_RENAMEDIR = TRUE
  FIX_SCANWATCHED = TRUE
  FIX_RETRY = TRUE
  FIX_OVERFLOW = TRUE
  LooseFilter = TRUE
  QMax = 99
  RECORD = FALSE
INVARIANTS TypeOK Bounded WatchesOK
PROPERTIES Converges ErrConverges Settles ConfigureFresh
