----------------------------- MODULE SpecDocGen -----------------------------
(* Generator for C05/C06: base documents, and every document obtained from one by     *)
(* changing a single slot (to every other token of its class, well-formed or not), by  *)
(* emptying / extending a list, or by removing an optional member.  Each state is one  *)
(* implementation test.                                                               *)
EXTENDS SpecDoc, TLC, Json

CONSTANTS BaseDocs, Versions, MaxMut, EMIT
VARIABLES doc, nmut, what
vars == <<doc, nmut, what>>

ListFields == {"env", "nodes", "mounts", "hooks", "gids"}
Toks(f) == CASE f = "env" -> EnvGood \cup EnvBad
             [] f = "nodes" -> NodeGood \cup NodeBad
             [] f = "mounts" -> MountGood \cup MountBad
             [] f = "hooks" -> HookGood \cup HookBad
             [] f = "gids" -> GidGood \cup GidBad
FirstLast(s) == IF Len(s) = 0 THEN {} ELSE {1, Len(s)}

EditsMutants(e) ==
  IF ~e.present THEN {}
  ELSE   UNION { { [e EXCEPT ![f][i] = t] : i \in FirstLast(e[f]), t \in Toks(f) } : f \in ListFields }
    \cup { [e EXCEPT ![f] = <<>>] : f \in ListFields }
    \cup UNION { { [e EXCEPT ![f] = Append(e[f], t)] : t \in Toks(f) } : f \in ListFields }
    \cup { [e EXCEPT !.rdt = t] : t \in RdtGood \cup RdtBad }
    \cup { [e EXCEPT !.xtra = t] : t \in XGood \cup XBad }
    \cup { [e EXCEPT !.present = FALSE] }

\* valid only where used: f ranges over the record's list fields
DevMutants(d, k) ==
     { [d EXCEPT !.name = t] : t \in (NameGood \cup NameBad) \ (IF k = 1 THEN {"dup"} ELSE {}) }
  \cup { [d EXCEPT !.ann = t] : t \in AnnGood \cup AnnBad }
  \cup { [d EXCEPT !.xtra = t] : t \in XGood \cup XBad }
  \cup { [d EXCEPT !.edits = e] : e \in EditsMutants(d.edits) }

DropDev(ds, k) == SubSeq(ds, 1, k - 1) \o SubSeq(ds, k + 1, Len(ds))

DocMutants(dc) ==
     { [dc EXCEPT !.ver = t] : t \in Versions }
  \cup { [dc EXCEPT !.kind = t] : t \in KindGood \cup KindBad }
  \cup { [dc EXCEPT !.ann = t] : t \in AnnGood \cup AnnBad }
  \cup { [dc EXCEPT !.xtra = t] : t \in XGood \cup XBad }
  \cup { [dc EXCEPT !.devform = t] : t \in DevFormGood \cup DevFormBad }
  \cup { [dc EXCEPT !.edits = e] : e \in EditsMutants(dc.edits) }
  \cup UNION { { [dc EXCEPT !.devs[k] = d] : d \in DevMutants(dc.devs[k], k) } : k \in 1..Len(dc.devs) }
  \cup { [dc EXCEPT !.devs = DropDev(dc.devs, k)] : k \in 1..Len(dc.devs) }

Init == doc \in BaseDocs /\ nmut = 0 /\ what = "base"
Next == nmut < MaxMut /\ nmut' = nmut + 1 /\ doc' \in DocMutants(doc) /\ doc' # doc /\ what' = "mutant"
Spec == Init /\ [][Next]_vars

\* sanity of the oracle: every base document is admissible; the version rule is monotone;
\* the required version does not depend on the device order
BasesAdmissible == nmut = 0 => Admissible(doc)
OrderFree == \A p \in Perms(Len(doc.devs)) : Required(Permute(doc, p)) = Required(doc)
Bounds == Required(doc) \in 3..7

EmitRow == EMIT => PrintT(ToJson([doc |-> doc, adm |-> Admissible(doc), wf |-> WellFormed(doc),
                                  req |-> Released[Required(doc)], nmut |-> nmut]))
\* the harness does not need the mutation history, and two routes to one document are one test
ViewDoc == <<doc>>
=============================================================================
