\* every string of length <= 3 (quick) over the boundary alphabet: neighbours of the letter and digit ranges, control byte, non-ASCII
SPECIFICATION Spec
CONSTANTS
  Alphabet = {"a", "z", "A", "Z", "0", "9", "_", "-", ".", ":", "/", "=", " ", "@", "[", "`", "{", "U", "C", ","}
  MaxLen = 3
  EMIT = TRUE
INVARIANTS RoundTrip FailContract PartsValid EmitRow
