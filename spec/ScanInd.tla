------------------------------ MODULE ScanInd ------------------------------
(* C01, unbounded in the number and order of directories: refresh()'s ascending scan with    *)
(* its first-wins slot, its `conflicts` set and the F5 repair (a conflict among lower        *)
(* priorities is forgotten when a higher priority takes the slot) computes the declarative   *)
(* precedence rule.  Files are abstract; their priorities are ARBITRARY integers, so the     *)
(* argument covers any directory list.  Checked with Apalache as an inductive invariant:     *)
(*   IndInit => IndInv (length 0),  IndInv /\ Next => IndInv' (length 1),                    *)
(*   IndInv => AtEnd (length 0).  With BUG_F5 the induction step must fail.                  *)
EXTENDS Integers, FiniteSets

CONSTANTS
  \* @type: Set(Str);
  Files,
  \* @type: Set(Str);
  Devs,
  \* @type: Bool;
  BUG_F5

VARIABLES
  \* @type: Str -> Int;
  prio,
  \* @type: Str -> Set(Str);
  defs,
  \* @type: Set(Str);
  done,
  \* @type: Str -> Str;
  slot,
  \* @type: Set(Str);
  conflicts

CInit    == Files = {"f1", "f2", "f3", "f4", "f5", "f6"} /\ Devs = {"x", "y"} /\ BUG_F5 = FALSE
CInitBug == Files = {"f1", "f2", "f3", "f4"} /\ Devs = {"x", "y"} /\ BUG_F5 = TRUE

None == "none"

TypeOK ==
  /\ prio \in [Files -> Int]
  /\ defs \in [Files -> SUBSET Devs]
  /\ done \in SUBSET Files
  /\ slot \in [Devs -> Files \cup {None}]
  /\ conflicts \in SUBSET Devs

Init ==
  /\ prio \in [Files -> Int]
  /\ defs \in [Files -> SUBSET Devs]
  /\ done = {}
  /\ slot = [d \in Devs |-> None]
  /\ conflicts = {}

\* the scan visits directories in ascending priority; inside a directory in any order
Visit(f) ==
  /\ f \in Files \ done
  /\ \A g \in Files : prio[g] < prio[f] => g \in done
  /\ done' = done \cup {f}
  /\ slot' = [d \in Devs |-> IF d \in defs[f] /\ (slot[d] = None \/ prio[f] > prio[slot[d]]) THEN f ELSE slot[d]]
  /\ conflicts' = { d \in Devs :
                      \/ d \in defs[f] /\ slot[d] # None /\ prio[f] = prio[slot[d]]
                      \/ d \in conflicts /\ (BUG_F5 \/ ~(d \in defs[f] /\ slot[d] # None /\ prio[f] > prio[slot[d]])) }
  /\ UNCHANGED <<prio, defs>>

Next == \E f \in Files : Visit(f)

\* what is known about the scanned prefix
Corr ==
  \A d \in Devs :
    LET P == { g \in done : d \in defs[g] } IN
    IF P = {} THEN slot[d] = None /\ d \notin conflicts
    ELSE /\ slot[d] \in P
         /\ \A g \in P : prio[g] <= prio[slot[d]]
         /\ (d \in conflicts <=> \E g \in P : g # slot[d] /\ prio[g] = prio[slot[d]])

Ascending == \A g \in done : \A h \in Files \ done : prio[g] <= prio[h]

IndInv == TypeOK /\ Corr /\ Ascending
IndInit == IndInv

\* the declarative rule over all files (module Resolve: the last-listed directory that defines the
\* device decides, and only if exactly one of its files defines it)
Decl(d) ==
  LET P == { g \in Files : d \in defs[g] } IN
  IF P = {} THEN None
  ELSE LET T == { g \in P : \A h \in P : prio[h] <= prio[g] } IN
       IF \E g \in T : \A h \in T : h = g THEN CHOOSE g \in T : TRUE ELSE None

Resolved(d) == IF d \in conflicts THEN None ELSE slot[d]

AtEnd == done = Files => \A d \in Devs : Resolved(d) = Decl(d)
=============================================================================
