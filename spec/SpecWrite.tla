------------------------------ MODULE SpecWrite ------------------------------
(* C10: the protocol by which Spec.write() publishes a Spec file, on an inode-level *)
(* file system, with a crash of the writer at every point, failures of create, write   *)
(* (at every offset) and rename, a concurrent scanner (list, open, read as separate     *)
(* steps) and optionally a second writer to the same target.                            *)
(*                                                                                     *)
(* One action per system call of the writer (pkg/cdi/spec.go write(), spec_linux.go).   *)
(* The BUG_* constants re-create protocols that violate the property; the selftest      *)
(* checks that TLC finds them.                                                          *)
EXTENDS Naturals, Sequences, FiniteSets, TLC

CONSTANTS Writers,        \* writer process ids (each writes its own complete content "w")
          Chunks,         \* the largest content is written in this many write steps
          Sizes,          \* SUBSET 1..Chunks: the lengths contents may have (a writer's length is chosen freely);
                          \* a later writer may publish a SHORTER content than an earlier, interrupted one wrote
          BUG_FIXEDTMP,   \* one fixed temporary name per target, opened without truncation
          HasOld,         \* a complete previous file exists under the target name
          BUG_INPLACE,    \* write into the target name directly (open + truncate)
          BUG_TMPEXT,     \* the temporary file carries a Spec extension
          BUG_NOCLEAN     \* a failed rename leaves the temporary file behind (harmless unless BUG_TMPEXT)

VARIABLES dir,     \* name -> inode (0 = no entry)
          ino,     \* inode -> [owner, len, ext]  owner = "old" or a writer id; len = chunks the owner has written,
                   \*          ext = extent of the file (> len when an earlier owner's data lie beyond)
          size,    \* writer -> length of its content
          nino,    \* next free inode
          wpc,     \* writer -> program counter
          wino,    \* writer -> inode of its open file (0 none)
          spc, sopen, sseen   \* scanner: program counter, opened inode, contents it has read

vars == <<dir, ino, size, nino, wpc, wino, spc, sopen, sseen>>

TmpName(w) == IF BUG_FIXEDTMP THEN <<"tmp", "shared">> ELSE <<"tmp", w>>
Target == <<"target">>
Names == {Target} \cup { TmpName(w) : w \in Writers }
\* which names does a directory scan load?  the target always; a temp name only if it has a Spec extension
SpecNamed(n) == n = Target \/ BUG_TMPEXT
MaxIno == 1 + 2 * Cardinality(Writers)

SizeOf(o) == IF o = "old" THEN Chunks ELSE size[o]
\* the whole content of its owner and nothing else
Complete(i) == ino[i].len = SizeOf(ino[i].owner) /\ ino[i].ext = ino[i].len
NoIno == [owner |-> "none", len |-> 0, ext |-> 0]

Init ==
  /\ dir = [n \in Names |-> IF n = Target /\ HasOld THEN 1 ELSE 0]
  /\ ino = [i \in 1..MaxIno |-> IF i = 1 /\ HasOld THEN [owner |-> "old", len |-> Chunks, ext |-> Chunks] ELSE NoIno]
  /\ size \in [Writers -> Sizes]
  /\ nino = 2
  /\ wpc = [w \in Writers |-> "create"]      \* validate, marshal and MkdirAll touch no Spec name
  /\ wino = [w \in Writers |-> 0]
  /\ spc = "idle" /\ sopen = 0 /\ sseen = {}

WName(w) == IF BUG_INPLACE THEN Target ELSE TmpName(w)

\* os.CreateTemp: a fresh inode under a fresh name (or, with BUG_INPLACE, the target truncated in place)
Create(w) ==
  /\ wpc[w] = "create"
  /\ IF BUG_INPLACE /\ dir[Target] # 0
     THEN /\ ino' = [ino EXCEPT ![dir[Target]] = [owner |-> w, len |-> 0, ext |-> 0]]
          /\ wino' = [wino EXCEPT ![w] = dir[Target]]
          /\ UNCHANGED <<dir, nino>>
     ELSE IF BUG_FIXEDTMP /\ dir[TmpName(w)] # 0
     THEN \* open(O_CREATE) without O_TRUNC of a left-over temporary file: the old bytes stay
          /\ ino' = [ino EXCEPT ![dir[TmpName(w)]] = [owner |-> w, len |-> 0, ext |-> @.ext]]
          /\ wino' = [wino EXCEPT ![w] = dir[TmpName(w)]]
          /\ UNCHANGED <<dir, nino>>
     ELSE /\ dir' = [dir EXCEPT ![WName(w)] = nino]
          /\ ino' = [ino EXCEPT ![nino] = [owner |-> w, len |-> 0, ext |-> 0]]
          /\ wino' = [wino EXCEPT ![w] = nino]
          /\ nino' = nino + 1
  /\ wpc' = [wpc EXCEPT ![w] = "write"]
  /\ UNCHANGED <<size, spc, sopen, sseen>>

CreateFails(w) == wpc[w] = "create" /\ wpc' = [wpc EXCEPT ![w] = "failed"] /\ UNCHANGED <<dir, ino, size, nino, wino, spc, sopen, sseen>>

\* one write(2) call transfers one chunk; the kernel may accept a prefix and then fail
WriteChunk(w) ==
  /\ wpc[w] = "write" /\ ino[wino[w]].len < size[w]
  /\ ino' = [ino EXCEPT ![wino[w]] = [@ EXCEPT !.len = @ + 1, !.ext = IF ino[wino[w]].len + 1 > @ THEN ino[wino[w]].len + 1 ELSE @]]
  /\ wpc' = [wpc EXCEPT ![w] = IF ino[wino[w]].len + 1 = size[w] THEN "close" ELSE "write"]
  /\ UNCHANGED <<dir, size, nino, wino, spc, sopen, sseen>>

\* disk full / file size limit: the write fails at this offset; the code closes and returns
\* the error, the temporary file stays
WriteFails(w) ==
  /\ wpc[w] = "write"
  /\ wpc' = [wpc EXCEPT ![w] = "failed"] /\ wino' = [wino EXCEPT ![w] = 0]
  /\ UNCHANGED <<dir, ino, size, nino, spc, sopen, sseen>>

Close(w) ==
  /\ wpc[w] = "close"
  /\ wino' = [wino EXCEPT ![w] = 0]
  /\ wpc' = [wpc EXCEPT ![w] = IF BUG_INPLACE THEN "done" ELSE "rename"]
  /\ UNCHANGED <<dir, ino, size, nino, spc, sopen, sseen>>

\* renameat2(dirfd, tmp, dirfd, target): the target entry switches atomically
Rename(w) ==
  /\ wpc[w] = "rename" /\ dir[TmpName(w)] # 0
  /\ dir' = [dir EXCEPT ![Target] = dir[TmpName(w)], ![TmpName(w)] = 0]
  /\ wpc' = [wpc EXCEPT ![w] = "done"]
  /\ UNCHANGED <<ino, size, nino, wino, spc, sopen, sseen>>

RenameFails(w) ==
  /\ wpc[w] = "rename"
  /\ dir' = IF BUG_NOCLEAN THEN dir ELSE [dir EXCEPT ![TmpName(w)] = 0]     \* os.Remove(tmp)
  /\ wpc' = [wpc EXCEPT ![w] = "failed"]
  /\ UNCHANGED <<ino, size, nino, wino, spc, sopen, sseen>>

\* kill -9 / power-off of the writer process at any point: nothing more happens
Crash(w) ==
  /\ wpc[w] \in {"create", "write", "close", "rename"}
  /\ wpc' = [wpc EXCEPT ![w] = "crashed"] /\ wino' = [wino EXCEPT ![w] = 0]
  /\ UNCHANGED <<dir, ino, size, nino, spc, sopen, sseen>>

\* a reader of the directory: picks a Spec-named entry, opens it, reads it to the end
ScanOpen(n) ==
  /\ spc = "idle" /\ SpecNamed(n) /\ dir[n] # 0
  /\ sopen' = dir[n] /\ spc' = "opened"
  /\ UNCHANGED <<dir, ino, size, nino, wpc, wino, sseen>>
ScanRead ==
  /\ spc = "opened"
  /\ sseen' = sseen \cup {ino[sopen]}
  /\ spc' = "idle" /\ sopen' = 0
  /\ UNCHANGED <<dir, ino, size, nino, wpc, wino>>

Next == \/ \E w \in Writers : Create(w) \/ CreateFails(w) \/ WriteChunk(w) \/ WriteFails(w) \/ Close(w)
                               \/ Rename(w) \/ RenameFails(w) \/ Crash(w)
        \/ \E n \in Names : ScanOpen(n)
        \/ ScanRead
Spec == Init /\ [][Next]_vars

-----------------------------------------------------------------------------
\* under a Spec file name: no file, the complete previous content or a complete new content
NoPartialVisible == \A n \in Names : (SpecNamed(n) /\ dir[n] # 0) => Complete(dir[n])
\* an inode linked under a Spec name is never written
ImmutableVisible == [][\A n \in Names : (SpecNamed(n) /\ dir[n] # 0 /\ dir'[n] = dir[n]) => ino'[dir[n]] = ino[dir[n]]]_vars
\* whatever a scanner read was complete
ScannerSeesWhole == \A c \in sseen : c.len = SizeOf(c.owner) /\ c.ext = c.len
\* after a failed or interrupted write nothing partial or temporary is loadable (the same formula, at rest)
AfterFailure == (\A w \in Writers : wpc[w] \in {"failed", "crashed", "done"}) => NoPartialVisible
\* a successful writer's content is what the target holds afterwards, unless another writer finished later
Published == \A w \in Writers : wpc[w] = "done" => (dir[Target] # 0 /\ Complete(dir[Target]))
=============================================================================
