\* C05/C06 quick: three base documents and every single-slot change of each
SPECIFICATION Spec
CONSTANTS
  BaseDocs <- MCBaseQuick
  Versions <- AllVersions
  MaxMut = 1
  EMIT = TRUE
VIEW ViewDoc
INVARIANTS BasesAdmissible OrderFree Bounds EmitRow
