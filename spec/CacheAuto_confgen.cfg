\* C20 behaviour generation (tlc -simulate): 3 reconfigurations, 4 file-system operations, every action recorded
SPECIFICATION Spec
CONSTANTS
  D = {"A", "B"}
  DirOptions = {{}, {"A"}, {"A", "B"}}
  MaxFsOps = 4
  MaxConfs = 3
  MaxWids = 4
  STARTS = {TRUE, FALSE}
  WithTmp = FALSE
  WithShortage = FALSE
  WithRenameAway = FALSE
  FIX_CREATE = TRUE
  FIX_READD = TRUE
  FIX_STALE = TRUE
  FIX_RENAMEDIR = TRUE
  FIX_SCANWATCHED = TRUE
  FIX_RETRY = TRUE
  FIX_OVERFLOW = TRUE
  LooseFilter = FALSE
  QMax = 99
  RECORD = TRUE
INVARIANTS TypeOK Bounded WatchesOK EmitRow

