------------------------------ MODULE CacheConc ------------------------------
(* C12: lock discipline of the cache.  Clients run programs of public operations, the   *)
(* watcher goroutine handles events, a switcher flips the directory atomically between  *)
(* two contents.  Shared variables are Go memory locations:                              *)
(*   dirs     the specDirs field            errp   the dirErrors field (the map pointer) *)
(*   errm     the contents of that map      index  the specs/devices/errors fields       *)
(*   watch    the fields of the watch struct (watcher, tracked)                          *)
(* Every operation is a (possibly empty) unlocked prelude followed by a critical         *)
(* section; each phase has a read set and a write set, transcribed from cache.go.        *)
(* NoRace: no two processes are in phases that touch the same location, one writing,     *)
(* unless both hold the mutex.  SnapshotOK: every result is one of the two contents.     *)
EXTENDS Naturals, Sequences, FiniteSets, TLC, Json

CONSTANTS Clients, Programs,      \* each client runs one program: a sequence of operation names
          BUG_F9,                 \* WriteSpec/RemoveSpec/GetSpecDirErrors read dirs/errp before taking the mutex
          BUG_INCREMENTAL,        \* refresh empties the index and fills it in a second step, and GetDevice forgets the mutex
          MaxFlips, MaxEvents, EMIT

\* "NewCache": the constructor - it starts the watcher goroutine before its initial scan, so it holds the (new)
\* cache's mutex throughout like Configure; modelled on the shared cache (one mutex, one watcher)
Ops == {"ListDevices", "GetDevice", "InjectDevices", "ListVendors", "GetVendorSpecs", "Refresh", "Configure", "NewCache",
        "GetErrors", "GetSpecErrors", "GetSpecDirectories", "GetSpecDirErrors", "WriteSpec", "RemoveSpec"}

\* unlocked prelude: [r, w]
Prelude(op) ==
  IF BUG_F9 /\ op \in {"WriteSpec", "RemoveSpec"} THEN [r |-> {"dirs"}, w |-> {}]
  ELSE IF BUG_F9 /\ op = "GetSpecDirErrors" THEN [r |-> {"errp"}, w |-> {}]
  ELSE IF BUG_INCREMENTAL /\ op = "GetDevice" THEN [r |-> {"index"}, w |-> {}]
  ELSE [r |-> {}, w |-> {}]

\* critical section (under the mutex)
CS(op) ==
  CASE op \in {"ListDevices", "GetDevice", "InjectDevices", "ListVendors", "GetVendorSpecs"}
         -> [r |-> {"watch", "errp", "errm", "dirs", "index"}, w |-> {"watch", "errm", "index"}]   \* refreshIfRequired + read
    [] op = "Refresh"   -> [r |-> {"watch", "errp", "errm", "dirs", "index"}, w |-> {"watch", "errm", "index"}]
    [] op \in {"Configure", "NewCache"} -> [r |-> {"watch", "dirs"}, w |-> {"dirs", "errp", "errm", "watch", "index"}]
    [] op = "GetErrors" -> [r |-> {"index", "errp", "errm"}, w |-> {}]
    [] op = "GetSpecErrors" -> [r |-> {"index"}, w |-> {}]
    [] op = "GetSpecDirectories" -> [r |-> {"dirs"}, w |-> {}]
    [] op = "GetSpecDirErrors" -> [r |-> {"errp", "errm"}, w |-> {}]
    [] op \in {"WriteSpec", "RemoveSpec"} -> [r |-> {"dirs"}, w |-> {}]
WatcherCS == [r |-> {"watch", "errm", "dirs"}, w |-> {"watch", "errm", "index"}]
RefreshesIndex(op) == op \in {"Refresh", "Configure", "NewCache"}     \* (queries refresh only when a directory was added)
Reads(op) == op \in {"ListDevices", "GetDevice", "InjectDevices", "ListVendors", "GetVendorSpecs"}

VARIABLES pc,        \* client -> "idle" | "prelude" | "wait" | "cs" | "cs2" | "done"
          ip,        \* client -> index of the current operation in its program
          prog,      \* client -> its program
          wpc, wleft,\* watcher: "idle" | "wait" | "cs" | "cs2"; events left to handle
          holder,    \* the mutex: "" or a process id
          fs, flips, \* directory content "A"/"B"
          index,     \* "A" | "B" | "empty" (only with BUG_INCREMENTAL)
          obs        \* results read so far
vars == <<pc, ip, prog, wpc, wleft, holder, fs, flips, index, obs>>

Op(c) == prog[c][ip[c]]
Init == /\ prog \in [Clients -> Programs] /\ pc = [c \in Clients |-> "idle"] /\ ip = [c \in Clients |-> 1]
        /\ wpc = "idle" /\ wleft = MaxEvents /\ holder = "" /\ fs = "A" /\ flips = 0 /\ index = "A" /\ obs = {}

Start(c) == /\ pc[c] = "idle" /\ ip[c] <= Len(prog[c])
            /\ pc' = [pc EXCEPT ![c] = "prelude"] /\ UNCHANGED <<ip, prog, wpc, wleft, holder, fs, flips, index, obs>>
\* the unlocked prelude (a read of the index here sees whatever is there)
DoPrelude(c) == /\ pc[c] = "prelude"
                /\ obs' = IF "index" \in Prelude(Op(c)).r THEN obs \cup {index} ELSE obs
                /\ pc' = [pc EXCEPT ![c] = "wait"] /\ UNCHANGED <<ip, prog, wpc, wleft, holder, fs, flips, index>>
Lock(c) == /\ pc[c] = "wait" /\ holder = "" /\ holder' = c
           /\ pc' = [pc EXCEPT ![c] = "cs"] /\ UNCHANGED <<ip, prog, wpc, wleft, fs, flips, index, obs>>
\* the critical section: a refresh swaps the index in wholesale (or, with the bug, in two steps)
DoCS(c) == /\ pc[c] = "cs" /\ holder = c
           /\ IF RefreshesIndex(Op(c)) /\ BUG_INCREMENTAL
              THEN index' = "empty" /\ pc' = [pc EXCEPT ![c] = "cs2"] /\ UNCHANGED <<holder, ip, obs>>
              ELSE /\ index' = IF RefreshesIndex(Op(c)) THEN fs ELSE index
                   /\ obs' = IF Reads(Op(c)) /\ ~(BUG_INCREMENTAL /\ Op(c) = "GetDevice") THEN obs \cup {index'} ELSE obs
                   /\ holder' = "" /\ pc' = [pc EXCEPT ![c] = "idle"] /\ ip' = [ip EXCEPT ![c] = @ + 1]
           /\ UNCHANGED <<prog, wpc, wleft, fs, flips>>
DoCS2(c) == /\ pc[c] = "cs2" /\ holder = c /\ index' = fs
            /\ holder' = "" /\ pc' = [pc EXCEPT ![c] = "idle"] /\ ip' = [ip EXCEPT ![c] = @ + 1]
            /\ UNCHANGED <<prog, wpc, wleft, fs, flips, obs>>

\* the watcher goroutine
WWait == wpc = "idle" /\ wleft > 0 /\ wpc' = "wait" /\ UNCHANGED <<pc, ip, prog, wleft, holder, fs, flips, index, obs>>
WLock == wpc = "wait" /\ holder = "" /\ holder' = "watcher" /\ wpc' = "cs" /\ UNCHANGED <<pc, ip, prog, wleft, fs, flips, index, obs>>
WCS == /\ wpc = "cs" /\ holder = "watcher"
       /\ IF BUG_INCREMENTAL THEN index' = "empty" /\ wpc' = "cs2" /\ UNCHANGED <<holder, wleft>>
          ELSE index' = fs /\ holder' = "" /\ wpc' = "idle" /\ wleft' = wleft - 1
       /\ UNCHANGED <<pc, ip, prog, fs, flips, obs>>
WCS2 == /\ wpc = "cs2" /\ holder = "watcher" /\ index' = fs /\ holder' = "" /\ wpc' = "idle" /\ wleft' = wleft - 1
        /\ UNCHANGED <<pc, ip, prog, fs, flips, obs>>

Flip == /\ flips < MaxFlips /\ flips' = flips + 1 /\ fs' = IF fs = "A" THEN "B" ELSE "A"
        /\ UNCHANGED <<pc, ip, prog, wpc, wleft, holder, index, obs>>

AllDone == (\A c \in Clients : pc[c] = "idle" /\ ip[c] > Len(prog[c])) /\ wpc = "idle" /\ wleft = 0
Finished == AllDone /\ UNCHANGED vars

Next == \/ \E c \in Clients : Start(c) \/ DoPrelude(c) \/ Lock(c) \/ DoCS(c) \/ DoCS2(c)
        \/ WWait \/ WLock \/ WCS \/ WCS2 \/ Flip \/ Finished
Spec == Init /\ [][Next]_vars

-----------------------------------------------------------------------------
Conflict(a, b) == (a.w \cap (b.r \cup b.w)) # {} \/ (b.w \cap (a.r \cup a.w)) # {}
NoAcc == [r |-> {}, w |-> {}]
\* what a process is touching right now, and whether it holds the mutex while doing so
AccC(c) == IF pc[c] = "prelude" THEN Prelude(Op(c)) ELSE IF pc[c] \in {"cs", "cs2"} THEN CS(Op(c)) ELSE NoAcc
LockedC(c) == pc[c] \in {"cs", "cs2"}
AccW == IF wpc \in {"cs", "cs2"} THEN WatcherCS ELSE NoAcc

NoRace ==
  /\ \A c, d \in Clients : (c # d /\ ~(LockedC(c) /\ LockedC(d))) => ~Conflict(AccC(c), AccC(d))
  /\ \A c \in Clients : ~LockedC(c) => ~Conflict(AccC(c), AccW)
MutualExclusion == Cardinality({ c \in Clients : LockedC(c) } \cup (IF wpc \in {"cs", "cs2"} THEN {"watcher"} ELSE {})) <= 1
SnapshotOK == obs \subseteq {"A", "B"}
\* no deadlock: TLC's deadlock check is on (Finished stutters only when everybody is done)

EmitPrograms == (EMIT /\ AllDone) => PrintT(ToJson([programs |-> [c \in Clients |-> prog[c]]]))
=============================================================================
