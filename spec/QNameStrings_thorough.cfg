\* every string of length <= 5 over 13 symbols
SPECIFICATION Spec
CONSTANTS
  Alphabet = {"a", "Z", "0", "_", "-", ".", ":", "/", "=", " ", "@", "U", ","}
  MaxLen = 5
  EMIT = TRUE
INVARIANTS RoundTrip FailContract PartsValid EmitRow
