--------------------------- MODULE CacheAutoTrace ---------------------------
(* Trace validation (code -> specification) for the auto-refresh cache (C11, C20).      *)
(* A trace is recorded from one real execution of harness/autoreplay.go:                 *)
(*   fs, fsdone  a file-system operation of the harness: entry before and after the       *)
(*               system call, both under the cache lock; the operation takes effect at    *)
(*               some point in between (fsnotify's reader does not take that lock)        *)
(*   recv        an event passed the watcher goroutine's filter (watch.prelock hook)     *)
(*   updated     the watcher goroutine, inside its critical section, has updated the      *)
(*               watches (watch.updated hook): snapshot                                   *)
(*   scanned     ... has rescanned (refresh.done hook in that goroutine): snapshot        *)
(*   handled     ... is about to unlock (watch.handled hook)                              *)
(*   op          a public operation entered its critical section: snapshot of the state   *)
(*               it found (op hook, right after Lock)                                    *)
(*   configured  Configure() finished: options and snapshot (configure.done hook)        *)
(* Each event must be explained by the corresponding action of CacheAuto, and each       *)
(* snapshot (tracked map, directories in error, indexed content per directory, mode)     *)
(* must equal the model's state at that point.  What is not logged - the kernel handing   *)
(* events to fsnotify, fsnotify dropping events of files that are gone, the goroutine     *)
(* dropping filtered events or seeing its channel closed - happens as silent steps.       *)
(* The trace is accepted iff some behaviour of the model consumes it completely, i.e.     *)
(* iff TLC reports the "invariant" NotDone violated.                                      *)
EXTENDS CacheAuto, IOUtils

\* LooseEnv: the environment (kernel, fsnotify) may hand the goroutine ANY event at any time.  A trace that the precise
\* environment model rejects but this one accepts shows a gap in my model of inotify/fsnotify, not a fault of the cache:
\* whatever events arrive, every snapshot of the cache still has to be what the actions of CacheAuto yield.
CONSTANT LooseEnv

Trace == ndJsonDeserialize(IOEnv.TRACE)
VARIABLES l,     \* position in the trace
          pfs,   \* the file-system operation between its two log entries: [e, applied], or NoFs
          pend   \* goroutines that have received an event whose "recv" entry is still to come: the hook
                 \* runs after the receive, so the receive itself may be earlier than its log entry
tvars == <<vars, l, pfs, pend>>
NoFs == [e |-> [a |-> "none"], applied |-> TRUE, half |-> FALSE]

TEv == Trace[l]
Is(e) == l <= Len(Trace) /\ TEv.ev = e /\ l' = l + 1
SeqSet(s) == { s[k] : k \in 1..Len(s) }

\* the logged snapshot equals the model state (unprimed / primed)
Match(st) ==
  /\ \A d \in D : tracked[d] = st.tracked[d]
  /\ { d \in D : errs[cur][d] # "none" } = SeqSet(st.errs) \cap D
  /\ \A d \in D : idx[d] = st.idx[d]
  /\ auto = st.auto
MatchNext(st) ==
  /\ \A d \in D : tracked'[d] = st.tracked[d]
  /\ { d \in D : errs'[cur'][d] # "none" } = SeqSet(st.errs) \cap D
  /\ \A d \in D : idx'[d] = st.idx[d]
  /\ auto' = st.auto

TraceInit ==
  /\ Init
  /\ Trace[1].ev = "init"
  /\ exists = [d \in D |-> d \in SeqSet(Trace[1].ex)]
  /\ cdirs = SeqSet(Trace[1].dirs)
  /\ l = 2 /\ pend = {} /\ pfs = NoFs

FsBegin == Is("fs") /\ pfs = NoFs /\ pfs' = [e |-> TEv, applied |-> FALSE, half |-> FALSE] /\ UNCHANGED <<vars, pend>>
FsEnd   == Is("fsdone") /\ pfs # NoFs /\ pfs.applied /\ pfs' = NoFs /\ UNCHANGED <<vars, pend>>
\* open(O_CREAT) and write(2) are two system calls: the reader may come in between
FsApplyHalf == /\ pfs # NoFs /\ ~pfs.applied /\ ~pfs.half /\ pfs.e.a = "createwrite"
               /\ CreateFirst(pfs.e.d, pfs.e.n, pfs.e.c)
               /\ pfs' = [pfs EXCEPT !.half = TRUE] /\ l' = l /\ UNCHANGED pend
FsApplyRest == /\ pfs # NoFs /\ ~pfs.applied /\ pfs.half
               /\ WriteSecond(pfs.e.d, pfs.e.n)
               /\ pfs' = [pfs EXCEPT !.applied = TRUE] /\ l' = l /\ UNCHANGED pend
FsApply ==
  /\ pfs # NoFs /\ ~pfs.applied /\ ~pfs.half /\ pfs' = [pfs EXCEPT !.applied = TRUE] /\ l' = l /\ UNCHANGED pend
  /\ LET e == pfs.e IN
     CASE e.a = "createwrite"   -> CreateWrite(e.d, e.n, e.c)
       [] e.a = "rewrite"       -> Rewrite(e.d, e.n, e.c)
       [] e.a = "renamewithin"  -> RenameWithin(e.d)
       [] e.a = "movein"        -> MoveIn(e.d, e.c)
       [] e.a = "moveout"       -> MoveOut(e.d)
       [] e.a = "removefile"    -> RemoveFile(e.d, e.n)
       [] e.a = "rmdir"         -> Rmdir(e.d)
       [] e.a = "mkdir"         -> Mkdir(e.d)
       [] e.a = "renamediraway" -> RenameDirAway(e.d)

\* the log entry of a receive that has happened (silently) before
RecvStep ==
  /\ Is("recv")
  /\ TEv.w \in pend
  /\ gor[TEv.w].pc = "have"
  /\ gor[TEv.w].ev.op = TEv.op /\ gor[TEv.w].ev.d = TEv.d /\ gor[TEv.w].ev.n = TEv.n
  /\ pend' = pend \ {TEv.w}
  /\ UNCHANGED <<vars, pfs>>

UpdatedStep == /\ Is("updated") /\ pfs = NoFs /\ TEv.w \in Wids \ pend /\ GorHandle(TEv.w) /\ gor'[TEv.w].pc = "scan"
               /\ MatchNext(TEv.st) /\ UNCHANGED <<pend, pfs>>
ScannedStep == Is("scanned") /\ pfs = NoFs /\ GorScan(TEv.w) /\ MatchNext(TEv.st) /\ UNCHANGED <<pend, pfs>>
HandledStep == Is("handled") /\ pfs = NoFs /\ gor[TEv.w].pc # "scan" /\ UNCHANGED <<vars, pend, pfs>>

QueryOps == {"ListDevices", "GetDevice", "InjectDevices", "ListVendors", "ListClasses", "GetVendorSpecs", "Refresh"}
OpStep ==
  /\ Is("op") /\ pfs = NoFs /\ Match(TEv.st) /\ UNCHANGED <<pend, pfs>>
  /\ IF TEv.name = "Refresh" /\ ~auto
     THEN \* an explicit Refresh() in manual mode rescans unconditionally
          /\ ~Locked /\ idx' = (IF short.t THEN NoIdx ELSE Fresh(cdirs)) /\ obs' = idx'
          /\ UNCHANGED <<exists, gen, files, away, cur, auto, cdirs, wstate, tracked, watches, kq, ub, infl, gor, errs, short, fsops, confs, hist>>
     ELSE IF TEv.name \in QueryOps THEN Query ELSE UNCHANGED vars

ConfiguredStep == Is("configured") /\ pfs = NoFs /\ Configure(SeqSet(TEv.dirs), TEv.auto) /\ MatchNext(TEv.st) /\ UNCHANGED <<pend, pfs>>

\* what the hooks cannot see (or see late)
Silent ==
  /\ l' = l /\ UNCHANGED pfs
  /\ \E w \in Wids : \/ ReaderRead(w) /\ UNCHANGED pend
                     \/ ReaderFetch(w) /\ UNCHANGED pend
                     \/ (infl[w] # NoEv /\ ~Relevant(infl[w]) /\ GorRecv(w) /\ UNCHANGED pend)
                     \/ (infl[w] # NoEv /\ Relevant(infl[w]) /\ GorRecv(w) /\ pend' = pend \cup {w})
                     \/ GorExit(w) /\ UNCHANGED pend
                     \* a goroutine whose watcher has been replaced takes the mutex, sees that, and returns
                     \/ (w \notin pend /\ FIX_STALE /\ w # WatcherPtr /\ GorHandle(w) /\ UNCHANGED pend)

Spurious ==
  /\ LooseEnv /\ l' = l /\ UNCHANGED <<pfs, pend>>
  \* (only what the trace says was received next: anything else would not help and costs states)
  /\ l <= Len(Trace) /\ TEv.ev = "recv" /\ TEv.w \in Wids
  /\ infl[TEv.w] = NoEv /\ gor[TEv.w].pc = "recv"
  /\ infl' = [infl EXCEPT ![TEv.w] = [op |-> TEv.op, d |-> TEv.d, n |-> TEv.n]]
  /\ UNCHANGED <<exists, gen, files, away, cur, auto, cdirs, wstate, tracked, watches, kq, ub, gor, errs, idx, short, fsops, confs, obs, hist>>

TraceNext == Spurious \/ FsBegin \/ FsApply \/ FsApplyHalf \/ FsApplyRest \/ FsEnd \/ RecvStep \/ UpdatedStep \/ ScannedStep \/ HandledStep \/ OpStep \/ ConfiguredStep \/ Silent
TraceSpec == TraceInit /\ [][TraceNext]_tvars

\* violated <=> some behaviour consumed the whole trace <=> the trace is accepted
NotDone == l <= Len(Trace)
=============================================================================
