\* C14 quick: inject, change the host nodes, inject again - three worlds, requests of <= 2 devices, 3 host tables, exhaustive
SPECIFICATION Spec
CONSTANTS
  Worlds <- C14Worlds
  SpecNames <- NamesI
  Kinds = {"k1", "k2"}
  Devs = {"x", "y", "z"}
  InitSpecs <- MCInitSpecsP1
  Hosts <- MCHosts3
  MaxReq = 2
  MaxSteps = 3
  WithHostChanges = TRUE
  EMIT = TRUE
INVARIANTS OriginsOK EmitRow
