\* thorough, depth 0: three Spec names per directory (three-way conflicts), dangling links, a sub-directory
SPECIFICATION Spec
CONSTANTS
  DirIds = {"A", "B"}
  DirLists <- T1DirLists
  InitStates = {"dir", "missing"}
  SpecNames = {"a.json", "b.yaml", "c.json"}
  NoiseNames = {"sub"}
  NameOrder <- T1Order
  Kinds = {"k1"}
  Devs = {"x", "y"}
  Contents <- T1Contents
  WContents <- HContents
  NoiseContents <- QNoise
  Requests <- QRequests
  MaxOps = 0
  MaxPending = 2
  BUG_F5 = FALSE
  BUG_F6 = FALSE
  OPS = {"fs", "refresh", "api", "inject"}
  EMIT = TRUE
INVARIANTS TypeOK PrecedenceOK IsolationOK EmitRow
