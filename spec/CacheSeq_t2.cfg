\* thorough, depth 0: every kind of name the scan must ignore
SPECIFICATION Spec
CONSTANTS
  DirIds = {"A"}
  DirLists <- T2DirLists
  InitStates = {"dir"}
  SpecNames = {"a.json"}
  NoiseNames = {"U.JSON", "n.txt", "noext", "sub", "t.tmp", "x.json.bak"}
  NameOrder <- T2Order
  Kinds = {"k1"}
  Devs = {"x", "y"}
  Contents <- T2Contents
  WContents <- HContents
  NoiseContents <- QNoise
  Requests <- QRequests
  MaxOps = 0
  MaxPending = 2
  BUG_F5 = FALSE
  BUG_F6 = FALSE
  OPS = {"fs", "refresh", "api", "inject"}
  EMIT = TRUE
INVARIANTS TypeOK PrecedenceOK IsolationOK EmitRow
