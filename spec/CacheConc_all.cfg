\* C12 thorough: 2 clients x every program of 2 operations over all 13 public operations, watcher (2 events), switcher (2 flips)
SPECIFICATION Spec
CONSTANTS
  Clients = {"c1", "c2"}
  Programs <- P2
  BUG_F9 = FALSE
  BUG_INCREMENTAL = FALSE
  MaxFlips = 2
  MaxEvents = 2
  EMIT = FALSE
INVARIANTS NoRace MutualExclusion SnapshotOK
