---------------------------- MODULE RefreshTrace ----------------------------
(* Trace validation (code -> specification) for C01: every refresh the real code       *)
(* completes - in the repository's own test-suite run with the verif tag, or in the     *)
(* harness - logs the valid Specs it loaded ([path, prio, qs]) and the device index it   *)
(* built ([q, path, prio]).  Each logged refresh must be exactly what the precedence     *)
(* rule assigns to the logged Specs: a name resolves iff the highest-priority Specs that *)
(* define it are exactly one, and then to that one.                                      *)
EXTENDS Naturals, Sequences, FiniteSets, TLC, Json, IOUtils

Trace == ndJsonDeserialize(IOEnv.TRACE)
VARIABLE i
Init == i = 1
Next == i < Len(Trace) /\ i' = i + 1
Spec == Init /\ [][Next]_i

SpecsOf(e) == { e.specs[k] : k \in 1..Len(e.specs) }
DevsOf(e)  == { e.devs[k] : k \in 1..Len(e.devs) }
Names(e)   == UNION { { s.qs[k] : k \in 1..Len(s.qs) } : s \in SpecsOf(e) }
Defining(e, q) == { s \in SpecsOf(e) : \E k \in 1..Len(s.qs) : s.qs[k] = q }
Top(e, q) == LET D == Defining(e, q)
                 m == CHOOSE p \in { s.prio : s \in D } : \A s \in D : s.prio <= p
             IN { s \in D : s.prio = m }
Expected(e) == { [q |-> q, path |-> (CHOOSE s \in Top(e, q) : TRUE).path, prio |-> (CHOOSE s \in Top(e, q) : TRUE).prio]
                 : q \in { n \in Names(e) : Cardinality(Top(e, n)) = 1 } }

\* C01 on every logged refresh
IndexIsPrecedence == DevsOf(Trace[i]) = Expected(Trace[i])
\* the whole trace was examined
TraceAccepted == TLCGet("stats").diameter = Len(Trace)
=============================================================================
