\* every string of length <= 4 over 13 symbols
SPECIFICATION Spec
CONSTANTS
  Alphabet = {"a", "Z", "0", "_", "-", ".", ":", "/", "=", " ", "@", "U", ","}
  MaxLen = 4
  EMIT = TRUE
INVARIANTS RoundTrip FailContract PartsValid EmitRow
