----------------------------- MODULE QNameParts -----------------------------
(* C07, part-structured: vendor, class and name each range over all short strings    *)
(* (accepted names need at least five symbols, so whole-string enumeration alone     *)
(* would see almost no accepted input).  Also the compose/parse round trip.          *)
EXTENDS QName, TLC, Json

CONSTANTS PartAlphabet, LongLen, ShortLen, EMIT
VARIABLES v, c, n

Strs(k) == UNION { [1..j -> PartAlphabet] : j \in 0..k }
\* one part ranges over strings of length <= LongLen while the others stay <= ShortLen
Init == \/ v \in Strs(LongLen) /\ c \in Strs(ShortLen) /\ n \in Strs(ShortLen)
        \/ v \in Strs(ShortLen) /\ c \in Strs(LongLen) /\ n \in Strs(ShortLen)
        \/ v \in Strs(ShortLen) /\ c \in Strs(ShortLen) /\ n \in Strs(LongLen)
Next == FALSE /\ UNCHANGED <<v, c, n>>
Spec == Init /\ [][Next]_<<v, c, n>>

S == Compose(v, c, n)
\* composing any valid parts and parsing the result returns those parts
ComposeParse == (VCOK(v) /\ VCOK(c) /\ NameOK(n)) => Parse(S) = [ok |-> TRUE, v |-> v, c |-> c, n |-> n]
\* and nothing else is accepted with these parts
OnlyValid == (Parse(S).ok /\ Parse(S).v = v /\ Parse(S).c = c /\ Parse(S).n = n) => (VCOK(v) /\ VCOK(c) /\ NameOK(n))

Row == [s |-> S, parse |-> Parse(S), split |-> Split(S), vc |-> VCOK(S), name |-> NameOK(S),
        pv |-> v, pc |-> c, pn |-> n, pvok |-> VCOK(v), pcok |-> VCOK(c), pnok |-> NameOK(n)]
EmitRow == EMIT => PrintT(ToJson(Row))
=============================================================================
