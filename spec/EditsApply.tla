----------------------------- MODULE EditsApply -----------------------------
(* C03: every edit list built from a universe of atomic edits, applied to every     *)
(* initial OCI spec of a family, under every host device table of a family.         *)
(* A state is (initial spec, host table, edits built so far); each state is one     *)
(* implementation test: the row carries the expected result of Apply.               *)
EXTENDS Edits, Json

CONSTANTS InitSpecs, Hosts, EnvAtoms, NodeAtoms, MountAtoms, HookAtoms, GidAtoms, RdtAtoms, MaxAtoms, EMIT

VARIABLES o0, host, e, n
vars == <<o0, host, e, n>>

Init == o0 \in InitSpecs /\ host \in Hosts /\ e = NoEdits /\ n = 0

Add(f, a) == n < MaxAtoms /\ n' = n + 1 /\ e' = [e EXCEPT ![f] = Append(@, a)] /\ UNCHANGED <<o0, host>>
SetRdt(r) == n < MaxAtoms /\ ~e.rdt.set /\ n' = n + 1 /\ e' = [e EXCEPT !.rdt = r] /\ UNCHANGED <<o0, host>>

Next == \/ \E a \in EnvAtoms   : Add("env", a)
        \/ \E a \in NodeAtoms  : Add("nodes", a)
        \/ \E a \in MountAtoms : Add("mounts", a)
        \/ \E a \in HookAtoms  : Add("hooks", a)
        \/ \E a \in GidAtoms   : Add("gids", a)
        \/ \E a \in RdtAtoms   : SetRdt(a)
Spec == Init /\ [][Next]_vars

Res == Apply(o0, e, host)

-----------------------------------------------------------------------------
(* the statement of C03, checked on the oracle itself (so that Apply is not just trusted) *)

Idx(s, P(_)) == { i \in 1..Len(s) : P(s[i]) }

EnvOK == Res.ok =>
  LET v == EffEnv(Res.o.env) IN
  /\ \A i \in 1..Len(e.env) : (\A j \in (i + 1)..Len(e.env) : e.env[j].n # e.env[i].n) => v[e.env[i].n] = e.env[i].v
  /\ \A m \in EnvNames(o0.env) \ EnvNames(e.env) : v[m] = EffEnv(o0.env)[m]
  /\ DOMAIN v = EnvNames(o0.env) \cup EnvNames(e.env)

NodesOK == Res.ok =>
  /\ \A i, j \in 1..Len(Res.o.devs) : Res.o.devs[i].path = Res.o.devs[j].path => i = j
  /\ \A i \in 1..Len(o0.devs) : (\A k \in 1..Len(e.nodes) : e.nodes[k].path # o0.devs[i].path)
                                   => \E j \in 1..Len(Res.o.devs) : Res.o.devs[j] = o0.devs[i]
  /\ \A p \in { e.nodes[k].path : k \in 1..Len(e.nodes) } :
        LET last == CHOOSE k \in 1..Len(e.nodes) : e.nodes[k].path = p /\ \A m \in (k + 1)..Len(e.nodes) : e.nodes[m].path # p
            c    == Complete(e.nodes[last], host).nd
            d    == CHOOSE d \in { Res.o.devs[j] : j \in 1..Len(Res.o.devs) } : d.path = p
        IN /\ d.type = c.type /\ d.major = c.major /\ d.minor = c.minor /\ d.fmode = c.fmode
           /\ d.uid = (IF c.uid # -1 THEN c.uid ELSE IF (o0.proc /\ o0.uid > 0) THEN o0.uid ELSE -1)
           /\ d.gid = (IF c.gid # -1 THEN c.gid ELSE IF (o0.proc /\ o0.gid > 0) THEN o0.gid ELSE -1)
  \* cgroup rules: the previous ones, then one per block/char node edit, in order
  /\ SubSeq(Res.o.rules, 1, Len(o0.rules)) = o0.rules
  /\ Len(Res.o.rules) = Len(o0.rules) + Cardinality({ k \in 1..Len(e.nodes) : Complete(e.nodes[k], host).nd.type \in {"b", "c"} })

MountsOK == Res.ok =>
  LET ms == Res.o.mounts IN
  /\ \A i, j \in 1..Len(ms) : (i # j /\ ms[i].dest = ms[j].dest) =>
        \* duplicates can only be inherited from the initial spec
        (\E a, b \in 1..Len(o0.mounts) : a # b /\ o0.mounts[a].dest = ms[i].dest)
  /\ Len(e.mounts) > 0 => \A i, j \in 1..Len(ms) : i < j => Depth(ms[i].dest) <= Depth(ms[j].dest)
  /\ \A k \in 1..Len(e.mounts) : (\A m \in (k + 1)..Len(e.mounts) : e.mounts[m].dest # e.mounts[k].dest)
        => \E i \in 1..Len(ms) : ms[i] = e.mounts[k]
  /\ Len(e.mounts) = 0 => ms = o0.mounts
  \* untouched original mounts of equal depth keep their relative order
  /\ \A a, b \in 1..Len(o0.mounts) :
        (a < b /\ Depth(o0.mounts[a].dest) = Depth(o0.mounts[b].dest)
           /\ \A k \in 1..Len(e.mounts) : e.mounts[k].dest \notin {o0.mounts[a].dest, o0.mounts[b].dest})
        => \E i, j \in 1..Len(ms) : i < j /\ ms[i] = o0.mounts[a] /\ ms[j] = o0.mounts[b]

RestOK == Res.ok =>
  /\ \A s \in Stages : Res.o.hooks[s] = o0.hooks[s] \o HookPaths(e.hooks, s)
  /\ SubSeq(Res.o.gids, 1, Len(o0.gids)) = o0.gids
  /\ \A i, j \in (Len(o0.gids) + 1)..Len(Res.o.gids) : Res.o.gids[i] = Res.o.gids[j] => i = j
  /\ \A i \in (Len(o0.gids) + 1)..Len(Res.o.gids) : Res.o.gids[i] # 0 /\ \A j \in 1..Len(o0.gids) : o0.gids[j] # Res.o.gids[i]
  /\ { Res.o.gids[i] : i \in 1..Len(Res.o.gids) } = ({ o0.gids[i] : i \in 1..Len(o0.gids) } \cup { e.gids[i] : i \in 1..Len(e.gids) }) \ (IF \E i \in 1..Len(o0.gids) : o0.gids[i] = 0 THEN {} ELSE {0})
  /\ Res.o.rdt = (IF e.rdt.set THEN e.rdt ELSE o0.rdt)

EmitRow == EMIT => PrintT(ToJson([o0 |-> o0, host |-> host, e |-> e, ok |-> Res.ok,
                                  exp |-> IF Res.ok THEN OciView(Res.o) ELSE OciView(o0)]))
=============================================================================
