------------------------------ MODULE Resolve ------------------------------
(* What the documentation promises (doc.go, SPEC.md, properties C01/C13):            *)
(* the declarative precedence rule and the listings derivable from the valid Spec   *)
(* files present.  Nothing in this module looks at how the cache computes them.     *)
(*                                                                                  *)
(* A file system is  fs : DirId -> [st, ents]  with st in {"missing","dir",         *)
(* "notdir","badanc","noperm"} and ents : Name -> Content;  a Content is the uniform record  *)
(* [k, kind, ds, v]  (k = "none" means no entry under that name).                   *)
EXTENDS Naturals, Sequences, FiniteSets

NoneC == [k |-> "none", kind |-> "", ds |-> {}, v |-> 0]

\* entry kinds: "ok" a valid Spec file, "linkok" a symbolic link to one (loaded through the
\* link), "syntax"/"semantic"/"empty" invalid content, "dangling" a link to nothing (the same
\* code path as a file that vanishes between listing and reading), "linkdir" a link to a
\* directory (cannot be read as a Spec: an error entry is allowed, not required),
\* "dirent" a sub-directory carrying a Spec name (ignored like every sub-directory)
ValidKinds == {"ok", "linkok"}
\* "noperm": a valid Spec file the process may not read (EACCES; the harness then runs without root)
\* "blank": white space only; "nodoc": a comment or a document marker and nothing else; "nulldoc": the document `null`
\* (three ways for a non-empty file to hold no Spec data)
BadKinds == {"syntax", "semantic", "empty", "dangling", "noperm", "blank", "nodoc", "nulldoc"}
MayFailKinds == {"linkdir"}

Scannable(fs, dirs, i) == fs[dirs[i]].st = "dir"

\* valid Spec files directly inside configured directory number i
ValidIn(fs, dirs, SpecNames, i) ==
  IF Scannable(fs, dirs, i)
  THEN { n \in SpecNames : fs[dirs[i]].ents[n].k \in ValidKinds }
  ELSE {}

Defs(fs, dirs, SpecNames, i, kind, d) ==
  { n \in ValidIn(fs, dirs, SpecNames, i) :
      fs[dirs[i]].ents[n].kind = kind /\ d \in fs[dirs[i]].ents[n].ds }

Unres == [p |-> 0, f |-> ""]

\* C01: resolves iff the last-listed directory that defines it does so in exactly one file
ResolveDev(fs, dirs, SpecNames, kind, d) ==
  LET P == { i \in 1..Len(dirs) : Defs(fs, dirs, SpecNames, i, kind, d) # {} } IN
  IF P = {} THEN Unres
  ELSE LET top == CHOOSE i \in P : \A j \in P : j <= i
           fsx == Defs(fs, dirs, SpecNames, top, kind, d) IN
       IF Cardinality(fsx) = 1 THEN [p |-> top, f |-> CHOOSE n \in fsx : TRUE] ELSE Unres

\* every valid Spec file, one entry per (directory index, name)
AllSpecs(fs, dirs, SpecNames) ==
  { <<i, n>> \in (1..Len(dirs)) \X SpecNames : n \in ValidIn(fs, dirs, SpecNames, i) }

KindsPresent(fs, dirs, SpecNames) ==
  { fs[dirs[s[1]]].ents[s[2]].kind : s \in AllSpecs(fs, dirs, SpecNames) }

\* C13: Spec-named entries that cannot be loaded; keyed by (directory id, name) = path
FilesInError(fs, dirs, SpecNames) ==
  { <<dirs[i], n>> : <<i, n>> \in { <<i, n>> \in (1..Len(dirs)) \X SpecNames :
        Scannable(fs, dirs, i) /\ fs[dirs[i]].ents[n].k \in BadKinds } }

MayFailFiles(fs, dirs, SpecNames) ==
  { <<dirs[i], n>> : <<i, n>> \in { <<i, n>> \in (1..Len(dirs)) \X SpecNames :
        Scannable(fs, dirs, i) /\ fs[dirs[i]].ents[n].k \in MayFailKinds } }

\* files taking part in a same-priority conflict (an error entry is allowed, not required)
ConflictFiles(fs, dirs, SpecNames, Kinds, Devs) ==
  { <<dirs[i], n>> : <<i, n>> \in { <<i, n>> \in (1..Len(dirs)) \X SpecNames :
        \E d \in Devs, kd \in Kinds :
           /\ n \in Defs(fs, dirs, SpecNames, i, kd, d)
           /\ Cardinality(Defs(fs, dirs, SpecNames, i, kd, d)) > 1 } }
=============================================================================
