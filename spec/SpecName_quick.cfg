\* every transient id of <= 3 tokens over 12 tokens x 4 kinds (.JSON and .Yaml are not extensions; L is a filler that brings the file name to 255 bytes)
SPECIFICATION Spec
CONSTANTS
  IdAlphabet = {"a", "/", ".", "..", ".json", ".yaml", ".JSON", ".Yaml", "_", " ", "U", "L"}
  MaxLen = 3
  KindToks = {"plain", "dotted", "jsoncls", "yamlcls"}
  EMIT = TRUE
INVARIANTS SingleComponent EmitRow
