\* every transient id of <= 3 tokens over 10 tokens (L: a filler that brings the file name to 255 bytes) x 4 kinds
SPECIFICATION Spec
CONSTANTS
  IdAlphabet = {"a", "/", ".", "..", ".json", ".yaml", "_", " ", "U", "L"}
  MaxLen = 3
  KindToks = {"plain", "dotted", "jsoncls", "yamlcls"}
  EMIT = TRUE
INVARIANTS SingleComponent EmitRow
