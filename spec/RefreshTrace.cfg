SPECIFICATION Spec
INVARIANTS IndexIsPrecedence
POSTCONDITION TraceAccepted
CHECK_DEADLOCK FALSE
