\* C02 quick: every world (32) x every ordered selection of <= 3 distinct resolvable devices x 2 initial specs
SPECIFICATION Spec
CONSTANTS
  Worlds <- MCWorlds
  SpecNames <- NamesI
  Kinds = {"k1", "k2"}
  Devs = {"x", "y", "z"}
  InitSpecs <- MCInitSpecsI
  Hosts <- MCHosts1
  MaxReq = 3
  MaxSteps = 1
  WithHostChanges = FALSE
  EMIT = TRUE
INVARIANTS OriginsOK EmitRow
