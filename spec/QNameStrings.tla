---------------------------- MODULE QNameStrings ----------------------------
(* C07 as a state machine over strings: a state is a string, a step appends one      *)
(* symbol.  Every state is one implementation test (row) for the parser entry points. *)
EXTENDS QName, TLC, Json

CONSTANTS Alphabet, MaxLen, EMIT
VARIABLE s
Init == s = <<>>
Next == Len(s) < MaxLen /\ \E c \in Alphabet : s' = Append(s, c)
Spec == Init /\ [][Next]_s

\* the statement's clauses, checked on the oracle
RoundTrip    == Parse(s).ok => Compose(Parse(s).v, Parse(s).c, Parse(s).n) = s
FailContract == ~Parse(s).ok => (Parse(s).v = <<>> /\ Parse(s).c = <<>> /\ Parse(s).n = s)
PartsValid   == Parse(s).ok => (VCOK(Parse(s).v) /\ VCOK(Parse(s).c) /\ NameOK(Parse(s).n)
                                /\ "/" \notin {Parse(s).v[i] : i \in 1..Len(Parse(s).v)}
                                /\ "=" \notin {Parse(s).c[i] : i \in 1..Len(Parse(s).c)})

Row == [s |-> s, parse |-> Parse(s), split |-> Split(s), vc |-> VCOK(s), name |-> NameOK(s)]
EmitRow == EMIT => PrintT(ToJson(Row))
=============================================================================
