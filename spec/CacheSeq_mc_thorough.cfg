\* exhaustive model checking (no behaviour emission): every population x directory list,
\* every history of <= 2 operations (thorough); the history variable is hidden by the VIEW
SPECIFICATION Spec
CONSTANTS
  DirIds = {"A", "B"}
  DirLists <- QDirLists
  InitStates = {"dir", "missing", "badanc", "notdir"}
  SpecNames = {"a.json", "b.yaml"}
  NoiseNames = {"n.txt"}
  NameOrder <- QOrder
  Kinds = {"k1", "k2"}
  Devs = {"x", "y"}
  Contents <- QContents
  WContents <- HContents
  NoiseContents <- QNoise
  Requests <- QRequests
  MaxOps = 2
  MaxPending = 2
  BUG_F5 = FALSE
  BUG_F6 = FALSE
  OPS = {"fs", "refresh", "api", "inject"}
  EMIT = FALSE
VIEW View4MC
INVARIANTS TypeOK PrecedenceOK IsolationOK
PROPERTIES WriteWins
