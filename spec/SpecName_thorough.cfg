\* every transient id of <= 5 tokens over 9 tokens x 4 kinds
SPECIFICATION Spec
CONSTANTS
  IdAlphabet = {"a", "/", ".", "..", ".json", ".yaml", "_", " ", "U"}
  MaxLen = 5
  KindToks = {"plain", "dotted", "jsoncls", "yamlcls"}
  EMIT = TRUE
INVARIANTS SingleComponent EmitRow
