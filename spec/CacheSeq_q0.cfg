\* quick, depth 0: every initial population x directory list, NewCache only
SPECIFICATION Spec
CONSTANTS
  DirIds = {"A", "B"}
  DirLists <- QDirLists
  InitStates = {"dir", "missing", "badanc", "notdir"}
  SpecNames = {"a.json", "b.yaml"}
  NoiseNames = {"n.txt"}
  NameOrder <- QOrder
  Kinds = {"k1", "k2"}
  Devs = {"x", "y"}
  Contents <- QContents
  WContents <- HContents
  NoiseContents <- QNoise
  Requests <- QRequests
  MaxOps = 0
  MaxPending = 2
  BUG_F5 = FALSE
  BUG_F6 = FALSE
  OPS = {"fs", "refresh", "api", "inject"}
  EMIT = TRUE
INVARIANTS TypeOK PrecedenceOK IsolationOK EmitRow
