\* C09 quick: every string slot x every pool string x 3 encodings, every integer field x every extreme
SPECIFICATION Spec
CONSTANTS
  StrSlots = {"envval", "hookpath", "hookarg", "hookenv", "mounthost", "mountcont", "mountopt", "mounttype", "nodepath", "nodehost", "rdtclos", "rdtl3", "rdtmb", "annval", "devannval", "perm"}
  Strings = {0,1,2,3,4,5,6,7,8,9,10,11,12,13,14,15,16,17,18,19,20,21,22,23,24,25,26,27,28,29,30,31,32,33,34,35,36,37,38,39,40,41,42,43,44,45,46,47,48,49,50,51,52,53,54,55,56,57,58,59,60,61,62,63,64,65,66,67,68,69,70,71,72,73,74,75,76,77,78,79,80,81,82,83,84,85,86,87,88,89,90,91,92,93,94,95,96,97,98,99,100}
  IntSlots = {"major", "minor", "filemode", "uid", "gid", "timeout", "addgid"}
  Ints = {"zero", "one", "neg1", "max32", "max32p1", "maxint64", "minint64", "maxuint32m1"}
  Encodings = {"json", "yaml", "none"}
  Pairs = FALSE
  EMIT = TRUE
INVARIANTS ReadsBackEqual EmitRow
