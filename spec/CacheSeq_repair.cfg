\* C13 "every later repair" (C01): every population of one directory over all failing entry kinds, one change, a refresh
SPECIFICATION Spec
CONSTANTS
  DirIds = {"A"}
  DirLists <- RDirLists
  InitStates = {"dir"}
  SpecNames = {"a.json", "b.yaml"}
  NoiseNames = {"n.txt"}
  NameOrder <- QOrder
  Kinds = {"k1"}
  Devs = {"x", "y"}
  Contents <- RContents
  WContents <- RWContents
  NoiseContents = {}
  Requests <- QRequests
  MaxOps = 2
  MaxPending = 1
  BUG_F5 = FALSE
  BUG_F6 = FALSE
  OPS = {"fs", "refresh"}
  EMIT = TRUE
INVARIANTS TypeOK PrecedenceOK IsolationOK EmitRow
