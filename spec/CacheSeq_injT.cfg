\* C04 thorough: every request of <= 3 tokens
SPECIFICATION Spec
CONSTANTS
  DirIds = {"A", "B"}
  DirLists <- InjDirLists
  InitStates = {"dir"}
  SpecNames = {"a.json", "b.yaml"}
  NoiseNames = {}
  NameOrder <- T0Order
  Kinds = {"k1", "k2"}
  Devs = {"x", "y"}
  Contents <- InjContents
  WContents <- HContents
  NoiseContents <- QNoise
  Requests <- TRequests
  MaxOps = 1
  MaxPending = 2
  BUG_F5 = FALSE
  BUG_F6 = FALSE
  OPS = {"inject"}
  EMIT = TRUE
INVARIANTS TypeOK PrecedenceOK IsolationOK EmitRow
