----------------------------- MODULE MCCacheConc -----------------------------
EXTENDS CacheConc
\* programs of two operations over all public operations
P2 == { <<a, b>> : a \in Ops, b \in Ops }
P1 == { <<a>> : a \in Ops }
\* programs of three operations from the operations that differ in lock discipline
Core == {"ListDevices", "InjectDevices", "Refresh", "Configure", "NewCache", "GetErrors", "GetSpecDirErrors", "WriteSpec"}
P2core == { <<a, b>> : a \in Core, b \in Core }
P3 == { <<a, b, c>> : a \in Core, b \in Core, c \in Core }
=============================================================================
