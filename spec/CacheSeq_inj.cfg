\* C04: every request of <= 2 tokens, and long requests (9, 12, 17 tokens) built from every pair of tokens (resolvable, unknown, unqualified, padded; repetitions) on every population of two directories
SPECIFICATION Spec
CONSTANTS
  DirIds = {"A", "B"}
  DirLists <- InjDirLists
  InitStates = {"dir"}
  SpecNames = {"a.json", "b.yaml"}
  NoiseNames = {}
  NameOrder <- T0Order
  Kinds = {"k1"}
  Devs = {"x", "y"}
  Contents <- InjContents
  WContents <- HContents
  NoiseContents <- QNoise
  Requests <- QRequestsL
  MaxOps = 1
  MaxPending = 2
  BUG_F5 = FALSE
  BUG_F6 = FALSE
  OPS = {"inject"}
  EMIT = TRUE
INVARIANTS TypeOK PrecedenceOK IsolationOK EmitRow
