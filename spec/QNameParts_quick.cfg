\* vendor/class/name: one part over all strings of length <= 2, the others <= 1, over 9 symbols
SPECIFICATION Spec
CONSTANTS
  PartAlphabet = {"a", "0", "_", ".", ":", "/", "=", "@", "-"}
  LongLen = 2
  ShortLen = 1
  EMIT = TRUE
INVARIANTS ComposeParse OnlyValid EmitRow
