\* C15 thorough: every sequence of two updates over a core universe (6 plugins x 6 ids x 4 device lists) on 5 initial maps
SPECIFICATION Spec
CONSTANTS
  Plugins <- CorePlugins
  Ids <- CoreIds
  DevLists <- CoreDevLists
  InitMaps <- MCInitMaps
  MaxSteps = 2
  EMIT = TRUE
INVARIANTS KeysLegal EmitRow
PROPERTIES NeverOverwrite OneKeyPerStep
