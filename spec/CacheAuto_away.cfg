\* C11 extended history class (rename the directory away), exhaustive with liveness
SPECIFICATION Spec
CONSTANTS
  D = {"A"}
  DirOptions = {{"A"}}
  MaxFsOps = 4
  MaxConfs = 0
  MaxWids = 1
  STARTS = {TRUE, FALSE}
  WithTmp = FALSE
  WithShortage = FALSE
  WithRenameAway = TRUE
  FIX_CREATE = TRUE
  FIX_READD = TRUE
  FIX_STALE = TRUE
  FIX_RENAMEDIR = TRUE
  FIX_SCANWATCHED = TRUE
  FIX_RETRY = TRUE
  FIX_OVERFLOW = TRUE
  LooseFilter = FALSE
  QMax = 99
  RECORD = FALSE
INVARIANTS TypeOK Bounded WatchesOK
PROPERTIES Converges ErrConverges Settles ConfigureFresh
