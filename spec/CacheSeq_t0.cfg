\* thorough, depth 0: three directories, every list of them, every population
SPECIFICATION Spec
CONSTANTS
  DirIds = {"A", "B", "C"}
  DirLists <- T0DirLists
  InitStates = {"dir", "missing", "badanc", "notdir"}
  SpecNames = {"a.json", "b.yaml"}
  NoiseNames = {}
  NameOrder <- T0Order
  Kinds = {"k1", "k2"}
  Devs = {"x", "y"}
  Contents <- T0Contents
  WContents <- HContents
  NoiseContents <- QNoise
  Requests <- QRequests
  MaxOps = 0
  MaxPending = 2
  BUG_F5 = FALSE
  BUG_F6 = FALSE
  EMIT = TRUE
INVARIANTS TypeOK PrecedenceOK IsolationOK EmitRow
