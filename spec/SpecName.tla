------------------------------ MODULE SpecName ------------------------------
(* C16, naming half: the file name generated for (kind, transient id) and the path    *)
(* rule of WriteSpec/RemoveSpec.  Strings are sequences of tokens; "/" is the only     *)
(* token containing a path separator.                                                  *)
EXTENDS Naturals, Sequences, FiniteSets, TLC, Json

CONSTANTS IdAlphabet, MaxLen, KindToks, EMIT
VARIABLES kind, id
vars == <<kind, id>>

Init == kind \in KindToks /\ id = <<>>
Next == Len(id) < MaxLen /\ \E c \in IdAlphabet : id' = Append(id, c) /\ UNCHANGED kind
Spec == Init /\ [][Next]_vars

ReplaceSlash(s) == [i \in 1..Len(s) |-> IF s[i] = "/" THEN "_" ELSE s[i]]
\* vendor-class_id
Name == <<kind>> \o <<"_">> \o ReplaceSlash(id)
Last(s) == s[Len(s)]
\* the class token may itself end in .json/.yaml, but the "_" that follows it never does
HasSpecExt(s) == Last(s) \in {".json", ".yaml"}
FileName == IF HasSpecExt(Name) THEN Name ELSE Name \o <<".yaml">>
Encoding == IF Last(FileName) = ".json" THEN "json" ELSE "yaml"

\* the generated name is a single path component
SingleComponent == \A i \in 1..Len(Name) : Name[i] # "/"

EmitRow == EMIT => PrintT(ToJson([kind |-> kind, id |-> id, name |-> Name, file |-> FileName, enc |-> Encoding]))
=============================================================================
