------------------------------ MODULE CacheSeq ------------------------------
(* The cache in manual-refresh mode, as implemented (pkg/cdi/cache.go refresh(),    *)
(* spec-dirs.go scanSpecDirs, WriteSpec/RemoveSpec/InjectDevices), over an abstract  *)
(* file system.  One action per public call or file-system operation.  The refresh  *)
(* action transcribes the code's ascending scan with its `conflicts` set; the       *)
(* invariants compare it with the declarative rule of module Resolve.                *)
(*                                                                                  *)
(* Bound to the code by replay: every behaviour is printed as one JSON row          *)
(* (hist) and executed against the real Cache by `harness replay-cache`.            *)
EXTENDS Naturals, Sequences, FiniteSets, TLC, Json, Resolve

CONSTANTS
  DirIds,      \* directory identities (each maps to one path in the harness)
  DirLists,    \* the configured directory lists explored (sequences over DirIds, repeats allowed)
  InitStates,  \* directory states allowed initially
  SpecNames,   \* entry names with a .json/.yaml extension
  NoiseNames,  \* entry names the scan must ignore (.txt, .tmp, no extension, .JSON, a sub-directory)
  NameOrder,   \* all names in the lexical order filepath.Walk visits them
  Kinds, Devs,
  Contents,    \* contents a Spec-named entry may have initially (besides NoneC)
  WContents,   \* contents written by the history operations
  NoiseContents, \* contents a noise entry may have (besides NoneC)
  Requests,    \* injection requests explored (sequences of tokens [t, kind, d])
  MaxOps,      \* bound on the number of operations after NewCache
  MaxPending,  \* at most this many directory changes between two refreshes
  BUG_F5, BUG_F6, \* TRUE re-introduces the two defects repaired in /repo (self-test of the invariants)
  OPS,         \* operation classes enabled: subset of {"fs", "refresh", "api", "inject"}
  EMIT         \* TRUE: print every terminal behaviour as a JSON row

VARIABLES fs, dirs, idx, fresh, nops, hist, fs0, pend

vars == <<fs, dirs, idx, fresh, nops, hist, fs0, pend>>
Names == SpecNames \cup NoiseNames
QNs == Kinds \X Devs
EmptyEnts == [n \in Names |-> NoneC]

-----------------------------------------------------------------------------
(* refresh() as coded *)

\* scan order: directories ascending, names in Walk order, Spec names only, scannable dirs only.
\* A directory whose Lstat fails with something else than ENOENT ("badanc") aborts the
\* whole scan when BUG_F6 (the behaviour before the repair).
RECURSIVE ScanFrom(_, _, _)
ScanFrom(f, ds, i) ==
  IF i > Len(ds) THEN <<>>
  ELSE IF BUG_F6 /\ f[ds[i]].st = "badanc" THEN <<>>
  ELSE (IF f[ds[i]].st = "dir"
        THEN SelectSeq([k \in 1..Len(NameOrder) |-> <<i, NameOrder[k]>>],
                       LAMBDA e : e[2] \in SpecNames /\ f[ds[i]].ents[e[2]].k \notin {"none", "dirent"})
        ELSE <<>>) \o ScanFrom(f, ds, i + 1)

EmptyIdx == [devs |-> [q \in QNs |-> Unres], specs |-> {}, errs |-> {}]

RECURSIVE Alg(_, _, _, _, _, _, _, _)
Alg(f, ds, scan, k, devices, conflicts, specs, errs) ==
  IF k > Len(scan)
  THEN [devs  |-> [q \in QNs |-> IF q \in conflicts THEN Unres ELSE devices[q]],
        specs |-> specs, errs |-> errs]
  ELSE LET i == scan[k][1]
           n == scan[k][2]
           c == f[ds[i]].ents[n] IN
       IF c.k \notin ValidKinds
       THEN Alg(f, ds, scan, k + 1, devices, conflicts, specs, errs \cup {<<ds[i], n>>})
       ELSE LET mine  == { q \in QNs : q[1] = c.kind /\ q[2] \in c.ds }
                equal == { q \in mine : devices[q].p = i }
                above == { q \in mine : devices[q].p # 0 /\ i > devices[q].p }
                upd   == [q \in QNs |-> IF q \in mine /\ (devices[q].p = 0 \/ i > devices[q].p)
                                        THEN [p |-> i, f |-> n] ELSE devices[q]]
                newc  == IF BUG_F5 THEN conflicts \cup equal
                                   ELSE (conflicts \ above) \cup equal
                newe  == errs \cup { <<ds[i], n>> : q \in equal }
                              \cup { <<ds[devices[q].p], devices[q].f>> : q \in equal }
            IN Alg(f, ds, scan, k + 1, upd, newc, specs \cup {<<i, n>>}, newe)

RefreshIdx(f, ds) == Alg(f, ds, ScanFrom(f, ds, 1), 1, [q \in QNs |-> Unres], {}, {}, {})

-----------------------------------------------------------------------------
(* the observable: what the query API returns after a refresh *)

View(f, ds, ix) ==
  [devs    |-> { [kind |-> q[1], d |-> q[2], p |-> ix.devs[q].p - 1, dir |-> ds[ix.devs[q].p],
                  f |-> ix.devs[q].f, v |-> f[ds[ix.devs[q].p]].ents[ix.devs[q].f].v]
                 : q \in { r \in QNs : ix.devs[r].p # 0 } },
   kinds   |-> { f[ds[s[1]]].ents[s[2]].kind : s \in ix.specs },
   specs   |-> { [kind |-> f[ds[s[1]]].ents[s[2]].kind, p |-> s[1] - 1, dir |-> ds[s[1]], f |-> s[2]]
                 : s \in ix.specs },
   errmust |-> FilesInError(f, ds, SpecNames),
   errmay  |-> FilesInError(f, ds, SpecNames) \cup ConflictFiles(f, ds, SpecNames, Kinds, Devs)
               \cup MayFailFiles(f, ds, SpecNames),
   \* C13: Refresh() error is pinned to non-nil when a Spec file is in error, to nil when
   \* everything is clean and nothing conflicts; otherwise either
   rerr    |-> IF FilesInError(f, ds, SpecNames) # {} THEN "err"
               ELSE IF ConflictFiles(f, ds, SpecNames, Kinds, Devs) = {} /\ MayFailFiles(f, ds, SpecNames) = {}
                       /\ \A i \in 1..Len(ds) : f[ds[i]].st \in {"dir", "missing"} THEN "nil"
               ELSE "any"]

NoView == [devs |-> {}, kinds |-> {}, specs |-> {}, errmust |-> {}, errmay |-> {}, rerr |-> "any"]
NoTok  == <<>>
Step(op, d, n, c, st, req, res, view) ==
  [op |-> op, d |-> d, n |-> n, c |-> c, st |-> st, req |-> req, res |-> res, view |-> view]

-----------------------------------------------------------------------------
(* actions *)

EntsSet == { [n \in Names |-> IF n \in SpecNames THEN a[n] ELSE b[n]] :
               a \in [SpecNames -> Contents \cup {NoneC}], b \in [NoiseNames -> NoiseContents \cup {NoneC}] }
\* "noperm": a directory the process may not read (mode 000): it keeps its entries, nothing of them is visible
DirStates == { [st |-> s, ents |-> e] : s \in InitStates \cap {"dir", "noperm"}, e \in EntsSet }
             \cup { [st |-> s, ents |-> EmptyEnts] : s \in InitStates \ {"dir", "noperm"} }
Used(ds) == { ds[i] : i \in 1..Len(ds) }

Init ==
  /\ dirs \in DirLists
  \* directories that are not configured stay missing (they cannot matter)
  /\ \E g \in [Used(dirs) -> DirStates] :
        fs = [d \in DirIds |-> IF d \in Used(dirs) THEN g[d] ELSE [st |-> "missing", ents |-> EmptyEnts]]
  /\ fs0 = fs
  /\ idx = RefreshIdx(fs, dirs)
  /\ fresh = TRUE
  /\ nops = 0
  /\ pend = 0
  /\ hist = <<Step("new", "", "", NoneC, "", NoTok, NoTok, View(fs, dirs, idx))>>

Budget == nops < MaxOps /\ nops' = nops + 1
Mutate == pend < MaxPending /\ pend' = pend + 1

Configured(d) == \E i \in 1..Len(dirs) : dirs[i] = d

\* create, rewrite or replace a directory entry
FsWrite(d, n, c) ==
  /\ Budget /\ Mutate /\ Configured(d) /\ fs[d].st = "dir" /\ fs[d].ents[n] # c
  /\ fs' = [fs EXCEPT ![d].ents[n] = c]
  /\ fresh' = FALSE
  /\ hist' = Append(hist, Step("write", d, n, c, "", NoTok, NoTok, NoView))
  /\ UNCHANGED <<dirs, idx, fs0>>

FsRemove(d, n) ==
  /\ Budget /\ Mutate /\ Configured(d) /\ fs[d].st = "dir" /\ fs[d].ents[n] # NoneC
  /\ fs' = [fs EXCEPT ![d].ents[n] = NoneC]
  /\ fresh' = FALSE
  /\ hist' = Append(hist, Step("remove", d, n, NoneC, "", NoTok, NoTok, NoView))
  /\ UNCHANGED <<dirs, idx, fs0>>

\* the directory itself disappears, appears, is replaced by a file, loses its parent
FsDirState(d, st) ==
  /\ Budget /\ Mutate /\ Configured(d) /\ fs[d].st # st
  /\ fs' = [fs EXCEPT ![d] = [st |-> st, ents |-> EmptyEnts]]
  /\ fresh' = FALSE
  /\ hist' = Append(hist, Step("dirstate", d, "", NoneC, st, NoTok, NoTok, NoView))
  /\ UNCHANGED <<dirs, idx, fs0>>

\* chmod 000 / chmod 755 of a configured directory: the entries stay, the scan cannot list them
FsChmod(d) ==
  /\ Budget /\ Mutate /\ Configured(d) /\ fs[d].st \in {"dir", "noperm"}
  /\ fs' = [fs EXCEPT ![d].st = IF @ = "dir" THEN "noperm" ELSE "dir"]
  /\ fresh' = FALSE
  /\ hist' = Append(hist, Step("chmod", d, "", NoneC, fs'[d].st, NoTok, NoTok, NoView))
  /\ UNCHANGED <<dirs, idx, fs0>>

\* Cache.Refresh() in manual mode: rescan, swap the index in wholesale
Refresh ==
  /\ Budget
  /\ idx' = RefreshIdx(fs, dirs)
  /\ fresh' = TRUE
  /\ hist' = Append(hist, Step("refresh", "", "", NoneC, "", NoTok, NoTok, View(fs, dirs, idx')))
  /\ pend' = 0 /\ UNCHANGED <<fs, dirs, fs0>>

\* Cache.WriteSpec(spec, name): the last directory, created if missing; an unusable
\* directory makes it fail with nothing changed
LastDir == dirs[Len(dirs)]
ApiWrite(n, c) ==
  /\ Budget /\ Mutate /\ Len(dirs) > 0 /\ n \in SpecNames /\ c.k = "ok"
  /\ LET D == LastDir IN
     IF fs[D].st \in {"dir", "missing"} /\ fs[D].ents[n].k # "dirent"
     THEN /\ fs' = [fs EXCEPT ![D] = [st |-> "dir", ents |-> [fs[D].ents EXCEPT ![n] = c]]]
          /\ hist' = Append(hist, Step("apiwrite", D, n, c, "", NoTok, <<"ok">>, NoView))
     ELSE /\ fs' = fs
          /\ hist' = Append(hist, Step("apiwrite", D, n, c, "", NoTok, <<"err">>, NoView))
  /\ fresh' = FALSE
  /\ UNCHANGED <<dirs, idx, fs0>>

\* Cache.RemoveSpec(name): deletes exactly that file; a name that does not exist succeeds
ApiRemove(n) ==
  /\ Budget /\ Mutate /\ Len(dirs) > 0 /\ n \in SpecNames
  /\ LET D == LastDir IN
     /\ fs' = IF fs[D].st = "dir" /\ fs[D].ents[n].k # "dirent" THEN [fs EXCEPT ![D].ents[n] = NoneC] ELSE fs
     /\ hist' = Append(hist, Step("apiremove", D, n, NoneC, "", NoTok,
                        IF fs[D].st \in {"dir", "missing"} /\ fs[D].ents[n].k # "dirent" THEN <<"ok">> ELSE <<"any">>, NoView))
  /\ fresh' = FALSE
  /\ UNCHANGED <<dirs, idx, fs0>>

\* Cache.InjectDevices(oci, req...): C04 - the misses, in request order, with repetitions
Resolvable(tok) == tok.t = "q" /\ idx.devs[<<tok.kind, tok.d>>].p # 0
Misses(req) == SelectSeq(req, LAMBDA tok : ~Resolvable(tok))
Inject(req) ==
  /\ Budget
  /\ hist' = Append(hist, Step("inject", "", "", NoneC, "", req, Misses(req), NoView))
  /\ UNCHANGED <<fs, dirs, idx, fresh, fs0, pend>>

Next ==
  \/ /\ "fs" \in OPS
     /\ \/ \E d \in DirIds, n \in SpecNames, c \in WContents : FsWrite(d, n, c)
        \/ \E d \in DirIds, n \in NoiseNames, c \in NoiseContents : FsWrite(d, n, c)
        \/ \E d \in DirIds, n \in Names : FsRemove(d, n)
        \/ \E d \in DirIds, st \in {"missing", "dir", "notdir", "badanc"} : FsDirState(d, st)
  \/ "chmod" \in OPS /\ \E d \in DirIds : FsChmod(d)
  \/ "refresh" \in OPS /\ Refresh
  \/ /\ "api" \in OPS
     /\ \/ \E n \in SpecNames, c \in { x \in WContents : x.k = "ok" } : ApiWrite(n, c)
        \/ \E n \in SpecNames : ApiRemove(n)
  \/ "inject" \in OPS /\ \E r \in Requests : Inject(r)

Spec == Init /\ [][Next]_vars

-----------------------------------------------------------------------------
(* properties *)

\* C01: after every completed refresh the index is exactly what the precedence rule says
PrecedenceOK ==
  fresh =>
    /\ \A q \in QNs : idx.devs[q] = ResolveDev(fs, dirs, SpecNames, q[1], q[2])
    /\ idx.specs = AllSpecs(fs, dirs, SpecNames)

\* C13: a bad file or directory affects only itself and is reported
IsolationOK ==
  fresh =>
    /\ FilesInError(fs, dirs, SpecNames) \subseteq idx.errs
    /\ idx.errs \subseteq FilesInError(fs, dirs, SpecNames) \cup ConflictFiles(fs, dirs, SpecNames, Kinds, Devs)
                           \cup MayFailFiles(fs, dirs, SpecNames)

\* C16: what WriteSpec wrote resolves there after a refresh unless the same directory
\* holds another definition; checked as an action property on the Refresh that follows
WriteWins ==
  [][ (fresh' /\ ~fresh /\ Len(hist) > 0 /\ hist[Len(hist)].op = "apiwrite" /\ hist[Len(hist)].res = <<"ok">>) =>
        LET s == hist[Len(hist)] IN
        \A d \in s.c.ds :
           \/ idx'.devs[<<s.c.kind, d>>] = [p |-> Len(dirs), f |-> s.n]
           \/ \E m \in SpecNames \ {s.n} : fs[LastDir].ents[m].k \in ValidKinds /\ fs[LastDir].ents[m].kind = s.c.kind
                                            /\ d \in fs[LastDir].ents[m].ds ]_vars

TypeOK ==
  /\ nops \in 0..MaxOps
  /\ \A q \in QNs : idx.devs[q].p \in 0..Len(dirs)

\* behaviours are emitted from the states where the budget is used up and the view is fresh
EmitRow == (EMIT /\ nops = MaxOps) => PrintT(ToJson([dirs |-> dirs, fs0 |-> fs0, hist |-> hist]))

View4MC == <<fs, dirs, idx, fresh, nops, pend>>
=============================================================================
