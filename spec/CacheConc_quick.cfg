\* C12 quick: 2 clients x every program of 2 operations over the 7 operations that differ in lock discipline, watcher (1 event), switcher (1 flip)
SPECIFICATION Spec
CONSTANTS
  Clients = {"c1", "c2"}
  Programs <- P2core
  BUG_F9 = FALSE
  BUG_INCREMENTAL = FALSE
  MaxFlips = 1
  MaxEvents = 1
  EMIT = FALSE
INVARIANTS NoRace MutualExclusion SnapshotOK
