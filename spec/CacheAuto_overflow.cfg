\* C11, queue overflow: the quick universe with a kernel queue of 2 events (+ the overflow notice)
SPECIFICATION Spec
CONSTANTS
  D = {"A"}
  DirOptions = {{"A"}}
  MaxFsOps = 4
  MaxConfs = 0
  MaxWids = 1
  STARTS = {TRUE, FALSE}
  WithTmp = TRUE
  WithShortage = FALSE
  WithRenameAway = FALSE
  FIX_CREATE = TRUE
  FIX_READD = TRUE
  FIX_STALE = TRUE
  FIX_RENAMEDIR = TRUE
  FIX_SCANWATCHED = TRUE
  FIX_RETRY = TRUE
  FIX_OVERFLOW = TRUE
  LooseFilter = FALSE
  QMax = 2
  RECORD = FALSE
INVARIANTS TypeOK Bounded WatchesOK
PROPERTIES Converges ErrConverges Settles ConfigureFresh
