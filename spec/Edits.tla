------------------------------- MODULE Edits -------------------------------
(* Container edits and their application to an OCI runtime spec, written from        *)
(* SPEC.md "OCI Edits" and the statements of C02/C03/C14 - not from the code.       *)
(*                                                                                  *)
(* Abstract OCI spec (only what edits may touch; the harness digests everything     *)
(* else and requires it unchanged):                                                 *)
(*   env    : Seq([n, v])                 process environment, in order             *)
(*   proc   : BOOLEAN, uid, gid : Nat     process section present / its user        *)
(*   gids   : Seq(Nat)                    additional GIDs                           *)
(*   devs   : Seq([path,type,major,minor,uid,gid,fmode])   (-1 = unset)             *)
(*   rules  : Seq([type,major,minor,access])   device cgroup allow rules            *)
(*   mounts : Seq([dest,src,typ])   dest = [abs, parts]                             *)
(*   hooks  : [Stages -> Seq(path)]                                                 *)
(*   rdt    : [set, clos, l3]                                                       *)
(* Host device table: host : PathId -> [k, major, minor], k in none,b,c,p,file.     *)
EXTENDS Integers, Sequences, FiniteSets, TLC, SequencesExt

Stages == {"prestart", "createRuntime", "createContainer", "startContainer", "poststart", "poststop"}

NoEdits == [env |-> <<>>, nodes |-> <<>>, mounts |-> <<>>, hooks |-> <<>>, gids |-> <<>>,
            rdt |-> [set |-> FALSE, clos |-> "", l3 |-> ""]]

\* ContainerEdits.Append: lists are concatenated, a later RDT setting replaces an earlier one
AppendEdits(e, o) ==
  [env |-> e.env \o o.env, nodes |-> e.nodes \o o.nodes, mounts |-> e.mounts \o o.mounts,
   hooks |-> e.hooks \o o.hooks, gids |-> e.gids \o o.gids,
   rdt |-> IF o.rdt.set THEN o.rdt ELSE e.rdt]

-----------------------------------------------------------------------------
(* filepath.Clean on a component list; depth = number of separators of the cleaned path *)
RECURSIVE CleanFrom(_, _, _)
CleanFrom(parts, i, acc) ==
  IF i > Len(parts) THEN acc
  ELSE LET p == parts[i] IN
       IF p = "" \/ p = "." THEN CleanFrom(parts, i + 1, acc)
       ELSE IF p = ".." THEN CleanFrom(parts, i + 1, IF Len(acc) > 0 THEN SubSeq(acc, 1, Len(acc) - 1) ELSE acc)
       ELSE CleanFrom(parts, i + 1, Append(acc, p))

\* absolute destinations only ("/" and "/a" both have one separator)
Depth(dest) == LET c == CleanFrom(dest.parts, 1, <<>>) IN IF Len(c) = 0 THEN 1 ELSE Len(c)

MaxDepth(ms) == IF Len(ms) = 0 THEN 0
                ELSE LET S == { Depth(ms[i].dest) : i \in 1..Len(ms) } IN CHOOSE m \in S : \A x \in S : x <= m

\* parents before children, otherwise previous order
StableByDepth(ms) ==
  LET RECURSIVE Lvl(_)
      Lvl(d) == IF d > MaxDepth(ms) THEN <<>>
                ELSE SelectSeq(ms, LAMBDA m : Depth(m.dest) = d) \o Lvl(d + 1)
  IN Lvl(0)

DropFirst(s, P(_)) ==
  IF \E i \in 1..Len(s) : P(s[i])
  THEN LET k == CHOOSE i \in 1..Len(s) : P(s[i]) /\ \A j \in 1..(i - 1) : ~P(s[j])
       IN SubSeq(s, 1, k - 1) \o SubSeq(s, k + 1, Len(s))
  ELSE s

-----------------------------------------------------------------------------
(* one device node: completion from the host, then replacement in the OCI spec *)

HostPathOf(nd) == IF nd.host = "" THEN nd.path ELSE nd.host

\* [ok, nd]: the node with type/major/minor taken from the host node when unspecified
Complete(nd, host) ==
  IF nd.type # "" /\ (nd.major # 0 \/ nd.type = "p") THEN [ok |-> TRUE, nd |-> nd]
  ELSE LET h == host[HostPathOf(nd)] IN
       IF h.k \notin {"b", "c", "p"} THEN [ok |-> FALSE, nd |-> nd]
       ELSE IF nd.type # "" /\ nd.type # h.k THEN [ok |-> FALSE, nd |-> nd]
       ELSE LET ty == IF nd.type = "" THEN h.k ELSE nd.type IN
            [ok |-> TRUE,
             nd |-> [nd EXCEPT !.type = ty,
                               !.major = IF nd.major = 0 /\ ty # "p" THEN h.major ELSE nd.major,
                               !.minor = IF nd.major = 0 /\ ty # "p" THEN h.minor ELSE nd.minor]]

ApplyNode(o, nd) ==
  LET uid == IF nd.uid # -1 THEN nd.uid ELSE IF o.proc /\ o.uid > 0 THEN o.uid ELSE -1
      gid == IF nd.gid # -1 THEN nd.gid ELSE IF o.proc /\ o.gid > 0 THEN o.gid ELSE -1
      dev == [path |-> nd.path, type |-> nd.type, major |-> nd.major, minor |-> nd.minor,
              uid |-> uid, gid |-> gid, fmode |-> nd.fmode]
  IN [o EXCEPT !.devs  = Append(DropFirst(o.devs, LAMBDA d : d.path = nd.path), dev),
               !.rules = IF nd.type \in {"b", "c"}
                         THEN Append(o.rules, [type |-> nd.type, major |-> nd.major, minor |-> nd.minor,
                                               access |-> IF nd.perm = "" THEN "rwm" ELSE nd.perm])
                         ELSE o.rules]

RECURSIVE ApplyNodes(_, _, _, _)
ApplyNodes(o, nodes, i, host) ==
  IF i > Len(nodes) THEN [ok |-> TRUE, o |-> o]
  ELSE LET c == Complete(nodes[i], host) IN
       IF ~c.ok THEN [ok |-> FALSE, o |-> o]
       ELSE ApplyNodes(ApplyNode(o, c.nd), nodes, i + 1, host)

\* the paths of the hook edits of one stage, in order
HookPaths(hooks, s) == LET sel == SelectSeq(hooks, LAMBDA h : h.stage = s) IN [i \in 1..Len(sel) |-> sel[i].path]

ApplyMount(ms, m) == Append(DropFirst(ms, LAMBDA x : x.dest = m.dest), m)
ApplyGid(gs, g)   == IF g = 0 \/ \E i \in 1..Len(gs) : gs[i] = g THEN gs ELSE Append(gs, g)

\* the whole of ContainerEdits.Apply: [ok, o]; when a node cannot be completed only
\* "an error" is promised (C03 tolerance), so o is meaningless then
Apply(o, e, host) ==
  LET o1 == [o EXCEPT !.env = o.env \o e.env, !.proc = o.proc \/ Len(e.env) > 0]
      r2 == ApplyNodes(o1, e.nodes, 1, host)
      o2 == r2.o
      ms == FoldLeft(ApplyMount, o2.mounts, e.mounts)
      o3 == [o2 EXCEPT !.mounts = IF Len(e.mounts) > 0 THEN StableByDepth(ms) ELSE ms]
      o4 == [o3 EXCEPT !.hooks = [s \in Stages |->
                 o3.hooks[s] \o HookPaths(e.hooks, s)]]
      o5 == [o4 EXCEPT !.rdt = IF e.rdt.set THEN e.rdt ELSE o4.rdt]
      o6 == [o5 EXCEPT !.gids = FoldLeft(ApplyGid, o5.gids, e.gids)]
  IN [ok |-> r2.ok, o |-> o6]

\* the environment a container would see: the last entry for a name wins
EnvNames(env) == { env[i].n : i \in 1..Len(env) }
EffEnv(env) == [n \in EnvNames(env) |->
                 LET last == CHOOSE i \in 1..Len(env) : env[i].n = n /\ \A j \in (i + 1)..Len(env) : env[j].n # n
                 IN env[last].v]

\* what is compared with the real result (env through its effective map)
OciView(o) == [env |-> EffEnv(o.env), gids |-> o.gids, devs |-> o.devs, rules |-> o.rules,
               mounts |-> o.mounts, hooks |-> o.hooks, rdt |-> o.rdt]
=============================================================================
