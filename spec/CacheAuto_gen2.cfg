\* C11 behaviour generation: two directories, <= 6 operations
SPECIFICATION Spec
CONSTANTS
  D = {"A", "B"}
  DirOptions = {{"A", "B"}}
  MaxFsOps = 6
  MaxConfs = 0
  MaxWids = 1
  STARTS = {TRUE, FALSE}
  WithTmp = TRUE
  WithShortage = FALSE
  WithRenameAway = FALSE
  FIX_CREATE = TRUE
  FIX_READD = TRUE
  FIX_STALE = TRUE
  FIX_RENAMEDIR = TRUE
  FIX_SCANWATCHED = TRUE
  FIX_RETRY = TRUE
  FIX_OVERFLOW = TRUE
  LooseFilter = FALSE
  QMax = 99
  RECORD = TRUE
INVARIANTS TypeOK Bounded WatchesOK EmitRow

