\* C20 thorough: as quick, with descriptor shortage switched on and off at any step
SPECIFICATION Spec
CONSTANTS
  D = {"A", "B"}
  DirOptions = {{"A"}, {"A", "B"}}
  MaxFsOps = 2
  MaxConfs = 2
  MaxWids = 3
  STARTS = {TRUE, FALSE}
  WithTmp = FALSE
  WithShortage = TRUE
  WithRenameAway = FALSE
  FIX_CREATE = TRUE
  FIX_READD = TRUE
  FIX_STALE = TRUE
  FIX_RENAMEDIR = TRUE
  FIX_SCANWATCHED = TRUE
  FIX_RETRY = TRUE
  FIX_OVERFLOW = TRUE
  LooseFilter = FALSE
  QMax = 99
  RECORD = FALSE
INVARIANTS TypeOK Bounded WatchesOK
PROPERTIES Converges ErrConverges Settles ConfigureFresh
