\* C20 quick: two directories (B may be missing), reconfigurations over {A},{A,B} x auto on/off, <= 2 reconfigurations, <= 3 file-system operations
SPECIFICATION Spec
CONSTANTS
  D = {"A", "B"}
  DirOptions = {{}, {"A"}, {"A", "B"}}
  MaxFsOps = 3
  MaxConfs = 2
  MaxWids = 3
  STARTS = {TRUE, FALSE}
  WithTmp = FALSE
  WithShortage = FALSE
  WithRenameAway = FALSE
  FIX_CREATE = TRUE
  FIX_READD = TRUE
  FIX_STALE = TRUE
  FIX_RENAMEDIR = TRUE
  FIX_SCANWATCHED = TRUE
  FIX_RETRY = TRUE
  FIX_OVERFLOW = TRUE
  LooseFilter = FALSE
  QMax = 99
  RECORD = FALSE
INVARIANTS TypeOK Bounded WatchesOK
PROPERTIES Converges ErrConverges Settles ConfigureFresh
