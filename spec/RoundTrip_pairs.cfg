\* C09 thorough: pairs of slots with pairs of the most hostile strings
SPECIFICATION Spec
CONSTANTS
  StrSlots = {"envval", "hookarg", "mounthost", "rdtl3", "annval"}
  Strings = {1,9,13,24,27,29,33,36,38,54,55,56,57,59,61,65,66}
  IntSlots = {"major"}
  Ints = {"zero"}
  Encodings = {"json", "yaml", "none"}
  Pairs = TRUE
  EMIT = TRUE
INVARIANTS ReadsBackEqual EmitRow
