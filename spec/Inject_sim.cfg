\* C14/C02: random histories of 6 injections and host changes over every world (tlc -simulate)
SPECIFICATION Spec
CONSTANTS
  Worlds <- MCWorlds
  SpecNames <- NamesI
  Kinds = {"k1", "k2"}
  Devs = {"x", "y", "z"}
  InitSpecs <- MCInitSpecsI
  Hosts <- MCHosts3
  MaxReq = 3
  MaxSteps = 6
  WithHostChanges = TRUE
  EMIT = TRUE
INVARIANTS OriginsOK EmitRow
