SPECIFICATION Spec
INVARIANTS EmitRow
CHECK_DEADLOCK FALSE
