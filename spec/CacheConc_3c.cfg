\* C12 thorough: 3 clients x every single operation, watcher, switcher
SPECIFICATION Spec
CONSTANTS
  Clients = {"c1", "c2", "c3"}
  Programs <- P1
  BUG_F9 = FALSE
  BUG_INCREMENTAL = FALSE
  MaxFlips = 2
  MaxEvents = 2
  EMIT = FALSE
INVARIANTS NoRace MutualExclusion SnapshotOK
