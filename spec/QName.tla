------------------------------- MODULE QName -------------------------------
(* The qualified device name grammar of SPEC.md / property C07, and the annotation   *)
(* key/value rules of C15.  A string is a sequence of one-character symbols; the     *)
(* harness maps symbols to bytes ("U" = a two-byte UTF-8 rune, "C" = a control byte).*)
EXTENDS Naturals, Sequences, FiniteSets

Letters == {"a", "z", "A", "Z"}
Digits  == {"0", "9"}
AlNum(c) == c \in Letters \cup Digits
VCMid(c) == AlNum(c) \/ c \in {"_", "-", "."}
NMid(c)  == VCMid(c) \/ c = ":"

\* vendor and class: start with a letter, end with a letter or digit, a single letter is valid
VCOK(s) == /\ Len(s) >= 1 /\ s[1] \in Letters /\ AlNum(s[Len(s)])
           /\ \A i \in 2..(Len(s) - 1) : VCMid(s[i])
\* device name: starts and ends with a letter or digit
NameOK(s) == /\ Len(s) >= 1 /\ AlNum(s[1]) /\ AlNum(s[Len(s)])
             /\ \A i \in 2..(Len(s) - 1) : NMid(s[i])

FirstIdx(s, c) == IF \E i \in 1..Len(s) : s[i] = c
                  THEN CHOOSE i \in 1..Len(s) : s[i] = c /\ \A j \in 1..(i - 1) : s[j] # c
                  ELSE 0

Fail(s) == [ok |-> FALSE, v |-> <<>>, c |-> <<>>, n |-> s]

\* splitting only (ParseDevice): vendor/class=name with three non-empty parts, not starting with '/'
Split(s) ==
  IF Len(s) = 0 \/ s[1] = "/" THEN Fail(s)
  ELSE LET e == FirstIdx(s, "=") IN
       IF e = 0 THEN Fail(s)
       ELSE LET q == SubSeq(s, 1, e - 1)  nm == SubSeq(s, e + 1, Len(s))  sl == FirstIdx(q, "/") IN
            IF sl = 0 \/ Len(nm) = 0 THEN Fail(s)
            ELSE LET v == SubSeq(q, 1, sl - 1)  c == SubSeq(q, sl + 1, Len(q)) IN
                 IF Len(v) = 0 \/ Len(c) = 0 THEN Fail(s)
                 ELSE [ok |-> TRUE, v |-> v, c |-> c, n |-> nm]

\* C07: the parser contract - parts on success; empty vendor and class, the input as name, on failure
Parse(s) == LET p == Split(s) IN
            IF p.ok /\ VCOK(p.v) /\ VCOK(p.c) /\ NameOK(p.n) THEN p ELSE Fail(s)

Compose(v, c, n) == v \o <<"/">> \o c \o <<"=">> \o n

-----------------------------------------------------------------------------
(* C15: annotation keys and values *)

\* a Kubernetes qualified-name "name part": <= 63 characters, alphanumeric at both ends,
\* '-', '_', '.' and alphanumerics inside
K8sNameOK(s) == /\ Len(s) >= 1 /\ Len(s) <= 63 /\ AlNum(s[1]) /\ AlNum(s[Len(s)])
                /\ \A i \in 2..(Len(s) - 1) : VCMid(s[i])

ReplaceSlash(s) == [i \in 1..Len(s) |-> IF s[i] = "/" THEN "_" ELSE s[i]]

\* the name part of the key for (plugin, device id); the key is the CDI prefix followed by it
KeyName(plugin, id) == plugin \o <<"_">> \o ReplaceSlash(id)
KeyOK(plugin, id) == Len(plugin) >= 1 /\ Len(id) >= 1 /\ K8sNameOK(KeyName(plugin, id))
=============================================================================
