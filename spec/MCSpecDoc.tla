------------------------------ MODULE MCSpecDoc ------------------------------
EXTENDS SpecDocGen

E0 == [present |-> FALSE, env |-> <<>>, nodes |-> <<>>, mounts |-> <<>>, hooks |-> <<>>, rdt |-> "none", gids |-> <<>>, xtra |-> "none"]
EEnv == [E0 EXCEPT !.present = TRUE, !.env = <<"ok">>]
ENode == [E0 EXCEPT !.present = TRUE, !.nodes = <<"path">>]
EAll == [present |-> TRUE, env |-> <<"ok", "twoeq">>, nodes |-> <<"typed", "perm">>, mounts |-> <<"ok", "opts">>,
         hooks |-> <<"prestart", "full">>, rdt |-> "clos", gids |-> <<"five", "max">>, xtra |-> "none"]
EOld == [present |-> TRUE, env |-> <<"emptyval">>, nodes |-> <<"path", "blk">>, mounts |-> <<"ok">>,
         hooks |-> <<"poststop">>, rdt |-> "none", gids |-> <<>>, xtra |-> "none"]
Dv(name, ann, e) == [name |-> name, ann |-> ann, edits |-> e, xtra |-> "none"]
Dc(ver, kind, ann, e, devs) == [ver |-> ver, kind |-> kind, ann |-> ann, edits |-> e, devs |-> devs, devform |-> "list", xtra |-> "none"]

\* minimal: one device, environment only, oldest accepted version
B1 == Dc("0.3.0", "plain", "none", E0, <<Dv("x", "none", EEnv)>>)
\* two devices with every kind of edit twice, spec-level edits, annotations on both levels
B2 == Dc("1.0.0", "plain", "simple", EAll, <<Dv("x", "prefixed", EAll), Dv("punct", "none", EOld)>>)
\* three devices (first / middle / last), old-style content, exactly the version it needs
B3 == Dc("0.3.0", "under", "none", EEnv, <<Dv("x", "none", EOld), Dv("one", "none", ENode), Dv("x", "none", EEnv)>>)
\* the same with the features of 0.7.0 in the middle device only
B4 == Dc("0.7.0", "plain", "none", E0, <<Dv("x", "none", EEnv), Dv("x", "none", EAll), Dv("x", "none", ENode)>>)

MCBaseQuick == {B1, B2, B3}
MCBaseThorough == {B1, B2, B3, B4}
AllVersions == { Released[i] : i \in 1..Len(Released) } \cup BadVers
=============================================================================
