------------------------------- MODULE MCEdits -------------------------------
(* Bounded universes for EditsApply. *)
EXTENDS EditsApply

D(abs, parts) == [abs |-> abs, parts |-> parts]
Mnt(parts, src) == [dest |-> D(TRUE, parts), src |-> src, typ |-> ""]
Nd(path, hst, ty, ma, mi, perm, uid, gid, fm) ==
  [path |-> path, host |-> hst, type |-> ty, major |-> ma, minor |-> mi, perm |-> perm, uid |-> uid, gid |-> gid, fmode |-> fm]
Dev(path, ty, ma, mi, uid, gid, fm) == [path |-> path, type |-> ty, major |-> ma, minor |-> mi, uid |-> uid, gid |-> gid, fmode |-> fm]
NoHooks == [s \in Stages |-> <<>>]
NoRdt == [set |-> FALSE, clos |-> "", l3 |-> ""]

O0 == [env |-> <<>>, proc |-> FALSE, uid |-> 0, gid |-> 0, gids |-> <<>>, devs |-> <<>>, rules |-> <<>>,
       mounts |-> <<>>, hooks |-> NoHooks, rdt |-> NoRdt]
\* populated, process uid/gid zero, mounts deliberately not in depth order
O1 == [env |-> <<[n |-> "A", v |-> "orig"], [n |-> "Z", v |-> "keep"]>>, proc |-> TRUE, uid |-> 0, gid |-> 0,
       gids |-> <<7>>, devs |-> <<Dev("h1", "c", 1, 1, -1, -1, -1), Dev("o9", "b", 9, 9, 3, 3, 384)>>,
       rules |-> <<[type |-> "c", major |-> 1, minor |-> 1, access |-> "rwm"]>>,
       mounts |-> <<Mnt(<<"deep", "er", "est">>, "s0"), Mnt(<<"m", "x">>, "s0"), Mnt(<<"a">>, "s0"), Mnt(<<"m", "y">>, "s0")>>,
       hooks |-> [NoHooks EXCEPT !["prestart"] = <<"orig">>, !["poststop"] = <<"orig">>],
       rdt |-> [set |-> TRUE, clos |-> "orig", l3 |-> "L3orig"]]
\* process uid/gid non-zero
O2 == [O1 EXCEPT !.uid = 1000, !.gid = 2000, !.env = <<[n |-> "B", v |-> "orig"]>>, !.devs = <<>>, !.rules = <<>>,
                 !.mounts = <<Mnt(<<"a", "b">>, "s0")>>, !.rdt = NoRdt, !.gids = <<>>]
\* process present with only a uid
O3 == [O0 EXCEPT !.proc = TRUE, !.uid = 1000]

\* process gid without uid
O5 == [O0 EXCEPT !.proc = TRUE, !.gid = 44]
\* many mounts of equal depth (an unstable sort shows from 13 elements on), one parent last
ManyNames == <<"m07", "m03", "m11", "m01", "m14", "m05", "m09", "m02", "m13", "m06", "m10", "m04", "m12", "m08">>
O4 == [O0 EXCEPT !.mounts = [i \in 1..14 |-> Mnt(<<"q", ManyNames[i]>>, "s0")] \o <<Mnt(<<"q">>, "s0")>>]

HS(k, ma, mi) == [k |-> k, major |-> ma, minor |-> mi]
H1 == [h1 |-> HS("b", 8, 1), h2 |-> HS("c", 5, 2)]
H2 == [h1 |-> HS("p", 0, 0), h2 |-> HS("file", 0, 0)]
H3 == [h1 |-> HS("none", 0, 0), h2 |-> HS("c", 5, 2)]

MCInitSpecs == {O0, O1, O2, O3, O4, O5}
MCHosts == {H1, H2, H3}
MCEnv == { [n |-> "A", v |-> "1"], [n |-> "A", v |-> "2"], [n |-> "B", v |-> "1"] }
MCNodes == { Nd("h1", "", "c", 10, 20, "", -1, -1, -1),     \* fully specified
             Nd("h1", "", "b", 0, 0, "rw", -1, -1, -1),     \* type only: numbers from the host
             Nd("h2", "", "", 0, 0, "", -1, -1, -1),        \* nothing specified
             Nd("h1", "h2", "", 0, 0, "m", -1, -1, -1),     \* host path differs from container path
             Nd("h2", "h1", "b", 0, 0, "", -1, -1, -1),     \* type and host path given, numbers from the host
             Nd("h2", "", "c", 7, 7, "r", 5, 0, 420),       \* own uid, gid 0 set explicitly, file mode
             Nd("h1", "", "c", 10, 20, "", 9, -1, -1),      \* own uid only: the gid comes from the process
             Nd("h2", "", "c", 7, 7, "", -1, 8, -1),        \* own gid only: the uid comes from the process
             Nd("h2", "", "", 7, 9, "w", -1, -1, -1),       \* numbers given, type from the host: the numbers stay
             Nd("h1", "", "p", 0, 0, "", -1, -1, -1),       \* fifo: never looked up, no rule
             Nd("h2", "", "u", 3, 4, "", -1, -1, -1) }      \* unbuffered char: no rule
MCMounts == { Mnt(<<"a">>, "s1"), Mnt(<<"a", "b">>, "s1"), Mnt(<<"a", "b", "">>, "s1"), Mnt(<<"a", "", "c">>, "s1"),
              Mnt(<<"x", "..", "y">>, "s1"), Mnt(<<>>, "s1"), Mnt(<<"m", "x">>, "s1"), Mnt(<<"deep", "er", "est">>, "s1"),
              Mnt(<<"a", "b">>, "s2") }
MCHooks == { [stage |-> s, path |-> p] : s \in {"prestart", "createRuntime"}, p \in {"p1", "p2"} }
           \cup { [stage |-> s, path |-> "p1"] : s \in {"createContainer", "startContainer", "poststart", "poststop"} }
MCGids == {0, 5, 6, 7}
MCRdt == { [set |-> TRUE, clos |-> "new", l3 |-> ""], [set |-> TRUE, clos |-> "", l3 |-> "x"] }
=============================================================================
