SPECIFICATION Spec
INVARIANTS NoPartialVisible
PROPERTIES ImmutableVisible
POSTCONDITION TraceAccepted
CHECK_DEADLOCK FALSE
