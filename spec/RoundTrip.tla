------------------------------ MODULE RoundTrip ------------------------------
(* C09: writing a Spec and reading it back, as a state machine over abstract values.    *)
(* A value is (base Spec, the slots that were set, the strings / numbers put there); the  *)
(* file holds the value that was written, whatever the encoding, so reading and loading   *)
(* return exactly it.  TLA+ says nothing about YAML scalar resolution: this module is the  *)
(* generator of the systematic slot x string-class x encoding enumeration and the         *)
(* statement of what must come back; the assurance is that of a large targeted round-trip *)
(* test (level: exploration).                                                              *)
EXTENDS Naturals, Sequences, FiniteSets, TLC, Json

CONSTANTS StrSlots,   \* string-valued places of a Spec that validation leaves free
          Strings,    \* ids of the pool strings (the harness holds the spellings)
          IntSlots, Ints, \* integer fields and the extreme values to put there
          Encodings,  \* "json", "yaml", "none" (no extension: YAML by default)
          Pairs,      \* also every pair of string slots with two different strings
          EMIT

VARIABLES val, enc, file, back, pc
vars == <<val, enc, file, back, pc>>

NoVal == [kind |-> "none", slots |-> <<>>, vals |-> <<>>]
Values == { [kind |-> "str", slots |-> <<s>>, vals |-> <<x>>] : s \in StrSlots, x \in Strings }
          \cup { [kind |-> "int", slots |-> <<s>>, vals |-> <<x>>] : s \in IntSlots, x \in Ints }
          \cup (IF Pairs THEN { [kind |-> "str", slots |-> <<s, t>>, vals |-> <<x, y>>] : s \in StrSlots, t \in StrSlots, x \in Strings, y \in Strings } ELSE {})

Init == val \in Values /\ enc \in Encodings /\ file = NoVal /\ back = NoVal /\ pc = "write"
Write == pc = "write" /\ file' = val /\ pc' = "read" /\ UNCHANGED <<val, enc, back>>
Read  == pc = "read" /\ back' = file /\ pc' = "done" /\ UNCHANGED <<val, enc, file>>
Next == Write \/ Read
Spec == Init /\ [][Next]_vars

\* every Spec accepted for writing reads back equal
ReadsBackEqual == pc = "done" => back = val
EmitRow == (EMIT /\ pc = "write") => PrintT(ToJson([kind |-> val.kind, slots |-> val.slots, vals |-> val.vals, enc |-> enc]))
=============================================================================
