------------------------------ MODULE CacheLin ------------------------------
(* C12, second half ("every result reflects one snapshot"), decided on recorded          *)
(* concurrent executions of the real Cache: a linearizability check by trace validation. *)
(*                                                                                       *)
(* One Spec file is replaced atomically (rename) by a switcher with contents of          *)
(* increasing version 1, 2, 3, ...; client goroutines call Refresh and the query API on  *)
(* three caches of different mode:                                                       *)
(*    "manual"  auto-refresh off: only Refresh() rescans; a query answers from the index  *)
(*    "rescan"  auto-refresh on but no watcher could be created: every query rescans      *)
(*    "auto"    auto-refresh on with a watcher: the watcher goroutine rescans by itself    *)
(* harness/lin.go logs, in one total order (a mutex-protected log),                      *)
(*    swb v / swe v      before / after the rename that makes version v current            *)
(*    call t c op        goroutine t is about to call op on cache c (Refresh, a query,    *)
(*                       Configure with the options the cache already has, GetErrors)    *)
(*    ret  t v           the call returned; v = the version the result shows (0: none to  *)
(*                       show, -1: the result mixes versions or is incomplete)             *)
(* What is not logged happens as silent steps: the rename taking effect between swb and  *)
(* swe (SwEffect), the call taking effect between call and ret (Lin: its critical         *)
(* section), the watcher goroutine rescanning (Watcher).  TLC searches for a placement   *)
(* of these steps that explains every returned version; the trace is accepted iff the    *)
(* "invariant" NotDone is violated, i.e. some behaviour consumes the whole trace.          *)
(*                                                                                       *)
(* The abstract cache state is the one CacheSeq/Resolve give a single-file directory:    *)
(* the index is the content last scanned, i.e. a version number.                         *)
EXTENDS Integers, Sequences, FiniteSets, TLC, Json, IOUtils

Trace == ndJsonDeserialize(IOEnv.TRACE)

Caches  == {"manual", "rescan", "auto"}
Queries == {"GetDevice", "ListDevices", "InjectDevices", "GetVendorSpecs", "GetSpec"}
Threads == { Trace[k].t : k \in { j \in 1..Len(Trace) : Trace[j].e = "call" } }

VARIABLES l,      \* position in the trace
          dirV,   \* version of the file in the directory
          pendSw, \* version whose rename is in flight (0: none)
          idx,    \* cache -> version its index was built from
          pend    \* thread -> [op, c, done, val]: the call in flight
vars == <<l, dirV, pendSw, idx, pend>>
Idle == [op |-> "none", c |-> "none", done |-> TRUE, val |-> 0]

Init ==
  /\ Trace[1].e = "init"
  /\ l = 2
  /\ dirV = Trace[1].v /\ pendSw = 0
  /\ idx = [c \in Caches |-> Trace[1].v]     \* every cache was created (= scanned) before the switcher started
  /\ pend = [t \in Threads |-> Idle]

TEv == Trace[l]
Is(e) == l <= Len(Trace) /\ TEv.e = e /\ l' = l + 1

SwBegin  == Is("swb") /\ pendSw = 0 /\ pendSw' = TEv.v /\ UNCHANGED <<dirV, idx, pend>>
SwEffect == pendSw > 0 /\ dirV' = pendSw /\ pendSw' = 0 - pendSw /\ UNCHANGED <<l, idx, pend>>   \* negative: applied, swe to come
SwEnd    == Is("swe") /\ pendSw = 0 - TEv.v /\ pendSw' = 0 /\ UNCHANGED <<dirV, idx, pend>>

Call == Is("call") /\ pend[TEv.t] = Idle
        /\ pend' = [pend EXCEPT ![TEv.t] = [op |-> TEv.op, c |-> TEv.c, done |-> FALSE, val |-> 0]]
        /\ UNCHANGED <<dirV, pendSw, idx>>

\* the critical section of the call of thread t: one atomic step
Lin(t) ==
  LET p == pend[t] IN
  /\ ~p.done
  /\ UNCHANGED <<l, dirV, pendSw>>
  /\ \/ /\ p.op = "Refresh" /\ p.c # "auto"            \* manual: forced scan; no watcher: scans like every call
        /\ idx' = [idx EXCEPT ![p.c] = dirV]
        /\ pend' = [pend EXCEPT ![t].done = TRUE]
     \/ /\ p.op = "Refresh" /\ p.c = "auto"            \* with a watcher Refresh() is not forced (cache.go Refresh:
        /\ UNCHANGED idx                                \* refreshIfRequired(!c.autoRefresh)); the watcher does the work
        /\ pend' = [pend EXCEPT ![t].done = TRUE]
     \/ /\ p.op = "Configure"                        \* reconfiguring = a new cache: (watcher restarted and) scanned
        /\ idx' = [idx EXCEPT ![p.c] = dirV]
        /\ pend' = [pend EXCEPT ![t].done = TRUE]
     \/ /\ p.op \in Queries /\ p.c = "rescan"        \* no watcher: the query scans first, then answers
        /\ idx' = [idx EXCEPT ![p.c] = dirV]
        /\ pend' = [pend EXCEPT ![t].done = TRUE, ![t].val = dirV]
     \/ /\ p.op \in Queries /\ p.c # "rescan"        \* answers from the index as it is
        /\ UNCHANGED idx
        /\ pend' = [pend EXCEPT ![t].done = TRUE, ![t].val = idx[p.c]]
     \/ /\ p.op \notin Queries /\ p.op \notin {"Refresh", "Configure"}   \* GetErrors, GetSpecDirectories, ...: no visible effect here
        /\ UNCHANGED idx
        /\ pend' = [pend EXCEPT ![t].done = TRUE]

\* the watcher goroutine of the "auto" cache rescans whenever it likes (its events are not logged)
Watcher == idx["auto"] # dirV /\ idx' = [idx EXCEPT !["auto"] = dirV] /\ UNCHANGED <<l, dirV, pendSw, pend>>

Ret == /\ Is("ret") /\ pend[TEv.t].done /\ pend[TEv.t].op # "none"
       /\ (pend[TEv.t].op \in Queries => TEv.v = pend[TEv.t].val)
       /\ pend' = [pend EXCEPT ![TEv.t] = Idle]
       /\ UNCHANGED <<dirV, pendSw, idx>>

Next == SwBegin \/ SwEffect \/ SwEnd \/ Call \/ Ret \/ Watcher \/ \E t \in Threads : Lin(t)
TraceSpec == Init /\ [][Next]_vars

NotDone == l <= Len(Trace)

\* sanity of the model itself (checked on every trace): an index never runs ahead of the directory, versions only grow
IndexNotAhead == \A c \in Caches : idx[c] <= dirV
Monotone == [][dirV' >= dirV /\ \A c \in Caches : idx'[c] >= idx[c]]_vars
=============================================================================
