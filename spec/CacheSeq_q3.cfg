\* quick, depth 0: three Spec names in one directory (three-way conflicts, links, a directory named like a Spec)
SPECIFICATION Spec
CONSTANTS
  DirIds = {"A"}
  DirLists <- Q3DirLists
  InitStates = {"dir"}
  SpecNames = {"a.json", "b.yaml", "c.json"}
  NoiseNames = {}
  NameOrder <- T0Order3
  Kinds = {"k1"}
  Devs = {"x", "y"}
  Contents <- Q3Contents
  WContents <- HContents
  NoiseContents <- QNoise
  Requests <- QRequests
  MaxOps = 0
  MaxPending = 2
  BUG_F5 = FALSE
  BUG_F6 = FALSE
  OPS = {"fs", "refresh", "api", "inject"}
  EMIT = TRUE
INVARIANTS TypeOK PrecedenceOK IsolationOK EmitRow
