\* C09 thorough: every string slot x 80 pool strings + 120 seeded random UTF-8 strings x 3 encodings; every integer field x every extreme
SPECIFICATION Spec
CONSTANTS
  StrSlots = {"envval", "hookpath", "hookarg", "hookenv", "mounthost", "mountcont", "mountopt", "mounttype", "nodepath", "nodehost", "rdtclos", "rdtl3", "rdtmb", "annval", "devannval", "perm"}
  Strings = {0,1,2,3,4,5,6,7,8,9,10,11,12,13,14,15,16,17,18,19,20,21,22,23,24,25,26,27,28,29,30,31,32,33,34,35,36,37,38,39,40,41,42,43,44,45,46,47,48,49,50,51,52,53,54,55,56,57,58,59,60,61,62,63,64,65,66,67,68,69,70,71,72,73,74,75,76,77,78,79,80,81,82,83,84,85,86,87,88,89,90,91,92,93,94,95,96,97,98,99,100,101,102,103,104,105,106,107,108,109,110,111,112,113,114,115,116,117,118,119,120,121,122,123,124,125,126,127,128,129,130,131,132,133,134,135,136,137,138,139,140,141,142,143,144,145,146,147,148,149,150,151,152,153,154,155,156,157,158,159,160,161,162,163,164,165,166,167,168,169,170,171,172,173,174,175,176,177,178,179,180,181,182,183,184,185,186,187,188,189,190,191,192,193,194,195,196,197,198,199}
  IntSlots = {"major", "minor", "filemode", "uid", "gid", "timeout", "addgid"}
  Ints = {"zero", "one", "neg1", "max32", "max32p1", "maxint64", "minint64", "maxuint32m1"}
  Encodings = {"json", "yaml", "none"}
  Pairs = FALSE
  EMIT = TRUE
INVARIANTS ReadsBackEqual EmitRow
