\* C05/C06: random documents two or three changes away from a base document (tlc -simulate)
SPECIFICATION Spec
CONSTANTS
  BaseDocs <- MCBaseThorough
  Versions <- AllVersions
  MaxMut = 3
  EMIT = TRUE
VIEW ViewDoc
INVARIANTS BasesAdmissible OrderFree Bounds EmitRow
