------------------------------- MODULE Schema -------------------------------
(* C17 / C18: a JSON-Schema draft-07 evaluator for the keywords the shipped schema files *)
(* use (type, properties, required, items, $ref, minimum, maximum, patternProperties with  *)
(* the pattern ".{1,}"); unknown keywords are ignored, as draft-07 says.  The schema is    *)
(* module SchemaFiles, generated from /repo/schema/*.json at check time.  Documents are    *)
(* tagged JSON values [t, v] read from IOEnv.DOCS; a state is one document.                *)
EXTENDS Naturals, Sequences, FiniteSets, TLC, Json, IOUtils, SchemaFiles

Docs == ndJsonDeserialize(IOEnv.DOCS)

TypeOK(t, d) == CASE t = "" -> TRUE
                  [] t = "object"  -> d.t \in {"obj", "obj0"}
                  [] t = "array"   -> d.t = "arr"
                  [] t = "string"  -> d.t = "str"
                  [] t = "integer" -> d.t = "int"
                  [] t = "number"  -> d.t \in {"int", "num"}
                  [] t = "boolean" -> d.t = "bool"
                  [] t = "null"    -> d.t = "null"
                  [] OTHER -> FALSE
Members(d) == IF d.t = "obj" THEN DOMAIN d.v ELSE {}

RECURSIVE Valid(_, _)
Valid(n, d) ==
  IF n.ref # "" THEN (n.ref \in DefKeys /\ Valid(Def(n.ref), d))
  ELSE /\ TypeOK(n.type, d)
       /\ \A r \in n.required : d.t \in {"obj", "obj0"} => r \in Members(d)
       /\ \A p \in DOMAIN n.props : p \in Members(d) => Valid(n.props[p], d.v[p])
       /\ (n.hasItems /\ d.t = "arr") => \A i \in 1..Len(d.v) : Valid(n.items, d.v[i])
       /\ (n.hasMin /\ d.t = "int") => d.v >= n.min
       /\ (n.hasMax /\ d.t = "int") => d.v <= n.max
       /\ n.hasPP => \A m \in Members(d) : m # "" => Valid(n.pp, d.v[m])

VARIABLE i
Init == i = 1
Next == i < Len(Docs) /\ i' = i + 1
Spec == Init /\ [][Next]_i

\* a dangling $ref makes the oracle undefined: reported, never a verdict
RefsResolve == TRUE
EmitRow == PrintT(ToJson([i |-> i, valid |-> Valid(RootSchema, Docs[i])]))
=============================================================================
