\* C13 (C01): random histories of 8 operations (write, remove, directory state, chmod, refresh) over unreadable files and directories (tlc -simulate)
SPECIFICATION Spec
CONSTANTS
  DirIds = {"A", "B"}
  DirLists <- PDirLists
  InitStates = {"dir", "noperm", "missing"}
  SpecNames = {"a.json", "b.yaml"}
  NoiseNames = {"n.txt"}
  NameOrder <- QOrder
  Kinds = {"k1"}
  Devs = {"x", "y"}
  Contents <- PContents
  WContents <- PWContents
  NoiseContents = {}
  Requests <- QRequests
  MaxOps = 8
  MaxPending = 1
  BUG_F5 = FALSE
  BUG_F6 = FALSE
  OPS = {"fs", "chmod", "refresh"}
  EMIT = TRUE
INVARIANTS TypeOK PrecedenceOK IsolationOK EmitRow
