--------------------------- MODULE MCAnnotations ---------------------------
EXTENDS Annotations

R(c, k) == [c |-> c, k |-> k]
Q(s) == [t |-> "q", s |-> s]
U(s) == [t |-> "u", s |-> s]

MCPlugins == { <<>>, <<R("a", 1)>>, <<R("a", 1), R("-", 1), R("Z", 1)>>, <<R("-", 1), R("a", 1)>>, <<R("a", 1), R(".", 1)>>,
               <<R("0", 1), R(":", 1), R("a", 1)>>, <<R("a", 1), R(" ", 1), R("a", 1)>>, <<R("U", 1)>>, <<R("a", 1), R("_", 1), R("z", 1)>>,
               <<R("a", 30)>>, <<R("a", 31)>>, <<R("a", 61)>>, <<R("a", 62)>>, <<R("a", 1), R("/", 1), R("a", 1)>>,
               \* non-ASCII letters are not letters: in the middle, and first (its first byte alone is a Latin-1 letter)
               <<R("a", 1), R("é", 1), R("a", 1)>>, <<R("é", 1), R("a", 1)>> }
MCIds     == { <<>>, <<R("0", 1)>>, <<R("a", 1), R("/", 1), R("z", 1)>>, <<R("a", 1), R("/", 1)>>, <<R("/", 1), R("a", 1)>>,
               <<R("0", 4), R(":", 1), R("0", 2)>>, <<R("a", 1), R("=", 1), R("a", 1)>>, <<R("z", 1)>>,
               <<R("9", 30)>>, <<R("9", 31)>>, <<R("9", 32)>>, <<R("a", 1), R("/", 2), R("a", 1)>>, <<R("a", 1), R("C", 1), R("a", 1)>>,
               \* a non-ASCII letter last (its last byte alone is a Latin-1 letter), a non-ASCII digit in the middle
               <<R("a", 1), R("µ", 1)>>, <<R("a", 1), R("٣", 1), R("a", 1)>> }
MCDevLists == { <<Q("q1")>>, <<Q("q1"), Q("q2")>>, <<Q("q2"), Q("q1"), Q("q3")>>, <<U("plain")>>, <<Q("q1"), U("empty")>>,
                <<U("comma")>>, <<Q("q1"), Q("q1")>>, <<U("pad"), Q("q2")>> }

\* a core universe for exhaustive pairs of updates: keys that collide (a_0 via two spellings), a used key, illegal keys
CorePlugins == { <<R("a", 1)>>, <<R("a", 1), R("_", 1), R("z", 1)>>, <<R("-", 1), R("a", 1)>>, <<R("a", 61)>>, <<R("a", 62)>>, <<>> }
CoreIds == { <<R("0", 1)>>, <<R("z", 1)>>, <<R("a", 1), R("/", 1), R("z", 1)>>, <<R("z", 1), R("/", 1), R("0", 1)>>, <<R("a", 1), R("/", 1)>>, <<R("0", 4), R(":", 1), R("0", 2)>> }
CoreDevLists == { <<Q("q1")>>, <<Q("q2"), Q("q1"), Q("q3")>>, <<U("plain")>>, <<Q("q1"), U("empty")>> }
Foreign(nm, v) == [cdi |-> FALSE, name |-> nm, val |-> v]
Cdi(nm, v) == [cdi |-> TRUE, name |-> nm, val |-> v]
MCInitMaps == { [m |-> {}, isnil |-> TRUE], [m |-> {}, isnil |-> FALSE],
                [m |-> {Foreign(<<R("f1", 1)>>, <<U("whatever")>>)}, isnil |-> FALSE],
                [m |-> {Foreign(<<R("f2", 1)>>, <<U("whatever")>>), Cdi(<<R("a", 1), R("_", 1), R("0", 1)>>, <<Q("q3")>>)}, isnil |-> FALSE],
                [m |-> {Cdi(<<R("z", 1)>>, <<Q("q1"), Q("q2"), U("plain")>>), Cdi(<<R("a", 1), R("_", 1), R("z", 1)>>, <<Q("q2")>>)}, isnil |-> FALSE],
                \* a used key whose value is the empty string (one empty, hence unqualified, device name)
                [m |-> {Cdi(<<R("a", 1), R("_", 1), R("0", 1)>>, <<U("empty")>>)}, isnil |-> FALSE] }
=============================================================================
