\* C12: the client programs explored, emitted for the stress driver
SPECIFICATION Spec
CONSTANTS
  Clients = {"c1", "c2"}
  Programs <- P2
  BUG_F9 = FALSE
  BUG_INCREMENTAL = FALSE
  MaxFlips = 0
  MaxEvents = 0
  EMIT = TRUE
INVARIANTS NoRace MutualExclusion SnapshotOK EmitPrograms
