---------------------------- MODULE Annotations ----------------------------
(* C15: the annotation helpers as a state machine over an annotation map.            *)
(* Strings are run-length sequences of [c, k] (symbol c repeated k times) so that     *)
(* lengths around the 63-character limit are cheap to state.                          *)
EXTENDS QName, TLC, Json, Integers

CONSTANTS Plugins, Ids, DevLists, InitMaps, MaxSteps, EMIT
\* a device token: [t, s] with t = "q" (a qualified name) or "u" (not qualified)
VARIABLES ann, isnil, hist, n, init0
vars == <<ann, isnil, hist, n, init0>>

RECURSIVE RLen(_)
RLen(r) == IF Len(r) = 0 THEN 0 ELSE r[1].k + RLen(Tail(r))

\* merge adjacent runs of the same symbol: two spellings of one string get one representation
RECURSIVE Norm(_)
Norm(r) == IF Len(r) <= 1 THEN r
           ELSE IF r[1].c = r[2].c THEN Norm(<<[c |-> r[1].c, k |-> r[1].k + r[2].k]>> \o SubSeq(r, 3, Len(r)))
           ELSE <<r[1]>> \o Norm(Tail(r))

Slash2Under(r) == [i \in 1..Len(r) |-> IF r[i].c = "/" THEN [c |-> "_", k |-> r[i].k] ELSE r[i]]
KeyNameR(plugin, id) == Norm(plugin \o <<[c |-> "_", k |-> 1]>> \o Slash2Under(id))

\* the Kubernetes name-part rule on a run-length string
K8sNameR(r) == /\ Len(r) >= 1 /\ RLen(r) <= 63
               /\ AlNum(r[1].c) /\ AlNum(r[Len(r)].c)
               /\ \A i \in 1..Len(r) : VCMid(r[i].c) \/ (AlNum(r[i].c))
               \* a non-alphanumeric run may not reach the first or last position
               /\ \A i \in 1..Len(r) : VCMid(r[i].c)

KeyOKR(plugin, id) == Len(plugin) >= 1 /\ Len(id) >= 1 /\ K8sNameR(KeyNameR(plugin, id))
AllQualified(devs) == \A i \in 1..Len(devs) : devs[i].t = "q"

\* the map: a set of entries [cdi, name (run-length), val (device tokens or a foreign value)]
Key(e) == [cdi |-> e.cdi, name |-> e.name]
HasKey(m, cdi, name) == \E e \in m : e.cdi = cdi /\ e.name = name

UpdateOK(m, plugin, id, devs) ==
  /\ KeyOKR(plugin, id) /\ ~HasKey(m, TRUE, KeyNameR(plugin, id)) /\ Len(devs) > 0 /\ AllQualified(devs)

Init == /\ \E im \in InitMaps : ann = im.m /\ isnil = im.isnil /\ init0 = im
        /\ hist = <<>> /\ n = 0

Update(plugin, id, devs) ==
  /\ n < MaxSteps /\ n' = n + 1
  /\ LET ok == UpdateOK(ann, plugin, id, devs) IN
     /\ ann' = IF ok THEN ann \cup {[cdi |-> TRUE, name |-> KeyNameR(plugin, id), val |-> devs]} ELSE ann
     /\ isnil' = (isnil /\ ~ok)
     /\ hist' = Append(hist, [plugin |-> plugin, id |-> id, devs |-> devs, ok |-> ok,
                              keyok |-> KeyOKR(plugin, id), valok |-> AllQualified(devs),
                              used |-> HasKey(ann, TRUE, KeyNameR(plugin, id)), keyname |-> KeyNameR(plugin, id)])
  /\ UNCHANGED init0

Next == \E p \in Plugins, i \in Ids, d \in DevLists : Update(p, i, d)
Spec == Init /\ [][Next]_vars

\* parsing: CDI keys with their devices in order; any unqualified device makes it fail with empty results
ParseOK(m) == \A e \in m : e.cdi => AllQualified(e.val)
ParseView(m) == [ok |-> ParseOK(m), keys |-> IF ParseOK(m) THEN { [name |-> e.name, devs |-> e.val] : e \in { x \in m : x.cdi } } ELSE {}]

\* the statement on the model itself
NeverOverwrite == [][\A e \in ann : e \in ann']_vars
OneKeyPerStep  == [][Cardinality(ann') <= Cardinality(ann) + 1]_vars
KeysLegal      == \A e \in ann : (e.cdi /\ \E i \in 1..Len(hist) : hist[i].ok /\ hist[i].keyname = e.name) => K8sNameR(e.name)

EmitRow == (EMIT /\ n = MaxSteps) => PrintT(ToJson([init |-> init0, hist |-> hist, final |-> ParseView(ann)]))
=============================================================================
