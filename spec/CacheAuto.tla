------------------------------ MODULE CacheAuto ------------------------------
(* The cache with automatic refresh, as implemented: the directories, the kernel's    *)
(* inotify queues, the fsnotify reader goroutine, the cache's watcher goroutine(s)     *)
(* with the arguments they captured when started, Configure(), queries, and a          *)
(* shortage of file descriptors.  One action per critical section or delivery step.    *)
(*                                                                                     *)
(*   C11  Converges / ErrConverges : once the changes cease, queries return what a     *)
(*        fresh cache returns (liveness, weak fairness on delivery, handler, queries)   *)
(*   C20  ConfigureFresh, Bounded, Settles : reconfiguration = new cache; watchers and  *)
(*        goroutines do not accumulate                                                  *)
(*                                                                                     *)
(* The FIX_* constants select the repaired behaviour (TRUE = as in /repo now); with     *)
(* FALSE the model shows the schedule that breaks the property (selftest).              *)
EXTENDS Naturals, Sequences, FiniteSets, TLC, Json

CONSTANTS D,            \* directory ids
          DirOptions,   \* directory lists Configure may install (subsets of D; priority is a fixed order on D)
          MaxFsOps, MaxConfs, MaxWids,
          STARTS,       \* allowed initial states of a directory: subset of {TRUE, FALSE} (exists or not)
          WithTmp,      \* use the temporary name (replace-by-rename histories)
          WithShortage, \* descriptor shortage may be switched on and off
          WithRenameAway, \* extended history class: a configured directory is renamed away
          FIX_CREATE,   \* F8: Create events are handled
          FIX_READD,    \* F15: a removed directory is re-added at once when it exists again
          FIX_STALE,    \* F13: a goroutine whose watcher is no longer current does nothing
          FIX_RENAMEDIR, \* F14: a Rename event for a tracked directory is treated like its removal
          LooseFilter,   \* fsnotify's existence filter may let an event of a vanished file pass (its Lstat fails with
                         \* ENOTDIR rather than ENOENT when the directory's parent has become a regular file)
          QMax,          \* length of the kernel's event queue per watcher (fs.inotify.max_queued_events)
          FIX_OVERFLOW,  \* F20: the overflow notice makes the watcher goroutine renew its watches and rescan
          FIX_RETRY,     \* F19: a scan that ran out of descriptors is repeated by the next query
          FIX_SCANWATCHED, \* F18: a rescan leaves out directories that could not be watched because they did not exist
          RECORD        \* TRUE: keep the history of actions (for behaviour emission); FALSE: hist stays empty

SpecName == "f.json"
TmpName  == "t.tmp"
Names == IF WithTmp THEN {SpecName, TmpName} ELSE {SpecName}
NoEv == [op |-> "none", d |-> "", n |-> ""]
Wids == 1..MaxWids

VARIABLES
  exists, gen, files,     \* the file system: directory exists / its generation (inode) / name -> content (0 absent)
  away,                   \* a renamed-away directory still alive as an inode: d -> generation (0 none)
  cur, auto, cdirs,       \* configuration: id of the current watcher+dirErrors map, auto-refresh, configured directories
  wstate,                 \* watcher id -> "none" | "open" | "closed" | "nil" (creation failed)
  tracked,                \* the shared tracked map: d -> "no" (not in the map) | "f" | "t"
  watches,                \* kernel: watcher id -> d -> generation watched (0 none)
  kq, ub, infl,           \* kernel queue per watcher; events fsnotify has read from the kernel but not delivered yet;
                          \* the event its reader goroutine is delivering (blocked on the unbuffered channel)
  gor,                    \* watcher id -> [pc, ev]: the goroutine started with that watcher (and that dirErrors map)
  errs,                   \* dirErrors map id -> d -> "none" | "monitor" | "removed" | "create"
  idx,                    \* the index: d -> content of the Spec name as last scanned (0 none)
  short,                  \* descriptors: [w: none left for a new watcher (inotify, epoll, pipe), t: none left at all - a scan
                          \* cannot open anything -, r: the last scan ran out of descriptors and is to be repeated (F19), n: budget]
  fsops, confs,           \* budgets used
  obs,                    \* result of the last query
  hist                    \* recorded actions (only when RECORD)

vars == <<exists, gen, files, away, cur, auto, cdirs, wstate, tracked, watches, kq, ub, infl, gor, errs, idx, short, fsops, confs, obs, hist>>
fsvars == <<exists, gen, files, away>>

EmptyFiles == [n \in Names |-> 0]
NoIdx == [d \in D |-> 0]
Fresh(cd) == [d \in D |-> IF d \in cd /\ exists[d] THEN files[d][SpecName] ELSE 0]
\* what a rescan indexes: with the F18 repair a configured directory that was
\* missing when the watches were last updated is left out even if it exists by now - it is not watched, so nothing
\* would tell the cache when it changes or disappears again; the next update() that can watch it brings it in
\* (only in auto mode with a watcher, and judged by the CURRENT dirErrors map er: its "could not be watched, no such
\* directory" entry)
Scan(cd, er) == [d \in D |-> IF d \in cd /\ exists[d]
                                 /\ ~(FIX_SCANWATCHED /\ auto /\ wstate[cur] \notin {"nil", "none"} /\ er[d] = "monitor")
                              THEN files[d][SpecName] ELSE 0]
Ev(o, d, n) == [op |-> o, d |-> d, n |-> n]
Act(a, d, n, c, w, nd, na) == [a |-> a, d |-> d, n |-> n, c |-> c, w |-> w, nd |-> nd, na |-> na]
Rec(x) == hist' = IF RECORD THEN Append(hist, x) ELSE hist

\* the kernel queues events on every open watcher that watches this generation of d; an event
\* identical (same watch, mask and name - rename cookies are not compared) to the newest one that
\* has not been read yet is coalesced with it (inotify(7); observed on the real kernel: two files
\* moved onto the same name give one IN_MOVED_TO when the first is still unread)
Coalesce(q, evs) == IF Len(q) > 0 /\ Len(evs) > 0 /\ q[Len(q)] = evs[1] THEN q \o Tail(evs) ELSE q \o evs
\* a full queue takes one more entry, the overflow notice (IN_Q_OVERFLOW), and drops what follows
OvEv == [op |-> "overflow", d |-> "", n |-> ""]
Bound(q) == IF Len(q) <= QMax THEN q ELSE Append(SubSeq(q, 1, QMax), OvEv)
Emit(d, g, evs) ==
  kq' = [w \in Wids |-> IF wstate[w] = "open" /\ watches[w][d] = g /\ g # 0 THEN Bound(Coalesce(kq[w], evs)) ELSE kq[w]]

FsBudget == fsops < MaxFsOps /\ fsops' = fsops + 1
CacheUnch == UNCHANGED <<cur, auto, cdirs, wstate, tracked, ub, infl, gor, errs, idx, short, confs, obs>>

-----------------------------------------------------------------------------
(* file-system operations: the histories of C11's statement *)

CreateWrite(d, n, c) ==   \* open(O_CREAT) + write: IN_CREATE, IN_MODIFY
  /\ FsBudget /\ exists[d] /\ files[d][n] = 0
  /\ files' = [files EXCEPT ![d][n] = c]
  /\ Emit(d, gen[d], <<Ev("create", d, n), Ev("write", d, n)>>)
  /\ UNCHANGED <<exists, gen, away, watches>> /\ CacheUnch /\ Rec(Act("createwrite", d, n, c, 0, {}, FALSE))

\* the same operation as its two system calls (used by the trace specification only: fsnotify's reader may
\* read the kernel queue between them, which changes what is merged with what later on)
CreateFirst(d, n, c) ==
  /\ FsBudget /\ exists[d] /\ files[d][n] = 0
  /\ files' = [files EXCEPT ![d][n] = c]
  /\ Emit(d, gen[d], <<Ev("create", d, n)>>)
  /\ UNCHANGED <<exists, gen, away, watches>> /\ CacheUnch /\ Rec(Act("createwrite", d, n, c, 0, {}, FALSE))
WriteSecond(d, n) ==
  /\ Emit(d, gen[d], <<Ev("write", d, n)>>)
  /\ UNCHANGED <<exists, gen, files, away, watches, fsops, hist>> /\ CacheUnch

Rewrite(d, n, c) ==       \* rewritten in place: one IN_MODIFY per truncation / write call (one or two here)
  /\ FsBudget /\ exists[d] /\ files[d][n] # 0 /\ files[d][n] # c
  /\ files' = [files EXCEPT ![d][n] = c]
  /\ \E k \in 1..2 : Emit(d, gen[d], [i \in 1..k |-> Ev("write", d, n)])
  /\ UNCHANGED <<exists, gen, away, watches>> /\ CacheUnch /\ Rec(Act("rewrite", d, n, c, 0, {}, FALSE))

RenameWithin(d) ==        \* replaced by rename of the temporary name: IN_MOVED_FROM, IN_MOVED_TO
  /\ WithTmp /\ FsBudget /\ exists[d] /\ files[d][TmpName] # 0
  /\ files' = [files EXCEPT ![d][SpecName] = files[d][TmpName], ![d][TmpName] = 0]
  /\ Emit(d, gen[d], <<Ev("rename", d, TmpName), Ev("create", d, SpecName)>>)
  /\ UNCHANGED <<exists, gen, away, watches>> /\ CacheUnch /\ Rec(Act("renamewithin", d, "", 0, 0, {}, FALSE))

MoveIn(d, c) ==           \* moved in from elsewhere (or hard-linked): IN_MOVED_TO / IN_CREATE only
  /\ FsBudget /\ exists[d] /\ files[d][SpecName] # c
  /\ files' = [files EXCEPT ![d][SpecName] = c]
  /\ Emit(d, gen[d], <<Ev("create", d, SpecName)>>)
  /\ UNCHANGED <<exists, gen, away, watches>> /\ CacheUnch /\ Rec(Act("movein", d, "", c, 0, {}, FALSE))

MoveOut(d) ==             \* renamed away: IN_MOVED_FROM
  /\ FsBudget /\ exists[d] /\ files[d][SpecName] # 0
  /\ files' = [files EXCEPT ![d][SpecName] = 0]
  /\ Emit(d, gen[d], <<Ev("rename", d, SpecName)>>)
  /\ UNCHANGED <<exists, gen, away, watches>> /\ CacheUnch /\ Rec(Act("moveout", d, "", 0, 0, {}, FALSE))

RemoveFile(d, n) ==       \* unlink: IN_DELETE
  /\ FsBudget /\ exists[d] /\ files[d][n] # 0
  /\ files' = [files EXCEPT ![d][n] = 0]
  /\ Emit(d, gen[d], <<Ev("remove", d, n)>>)
  /\ UNCHANGED <<exists, gen, away, watches>> /\ CacheUnch /\ Rec(Act("removefile", d, n, 0, 0, {}, FALSE))

Rmdir(d) ==               \* the (empty) directory is removed: IN_DELETE_SELF, the kernel drops the watch
  /\ FsBudget /\ exists[d] /\ files[d] = EmptyFiles
  /\ exists' = [exists EXCEPT ![d] = FALSE]
  /\ Emit(d, gen[d], <<Ev("remove", d, ".")>>)
  /\ watches' = [w \in Wids |-> [watches[w] EXCEPT ![d] = IF @ = gen[d] THEN 0 ELSE @]]
  /\ UNCHANGED <<gen, files, away>> /\ CacheUnch /\ Rec(Act("rmdir", d, "", 0, 0, {}, FALSE))

Mkdir(d) ==               \* created later / recreated: a new inode, nobody watches it yet
  /\ FsBudget /\ ~exists[d]
  /\ exists' = [exists EXCEPT ![d] = TRUE] /\ gen' = [gen EXCEPT ![d] = @ + 1]
  /\ files' = [files EXCEPT ![d] = EmptyFiles]
  /\ UNCHANGED <<away, kq, watches>> /\ CacheUnch /\ Rec(Act("mkdir", d, "", 0, 0, {}, FALSE))

\* extended history class (not in C11's list): the directory is renamed away, its inode lives on
RenameDirAway(d) ==
  /\ WithRenameAway /\ FsBudget /\ exists[d] /\ away[d] = 0
  /\ exists' = [exists EXCEPT ![d] = FALSE] /\ away' = [away EXCEPT ![d] = gen[d]]
  /\ files' = [files EXCEPT ![d] = EmptyFiles]
  /\ Emit(d, gen[d], <<Ev("rename", d, ".")>>)
  /\ UNCHANGED <<gen, watches>> /\ CacheUnch /\ Rec(Act("renamediraway", d, "", 0, 0, {}, FALSE))

-----------------------------------------------------------------------------
(* delivery: the fsnotify reader goroutine *)

FileThere(e) == e.n = "." \/ (exists[e.d] /\ files[e.d][e.n] # 0)

\* read(2) on the inotify descriptor returns everything queued so far: the events leave the
\* kernel queue (nothing can be coalesced with them any more) and wait in fsnotify's buffer
ReaderRead(w) ==
  /\ wstate[w] = "open" /\ infl[w] = NoEv /\ ub[w] = <<>> /\ kq[w] # <<>>
  /\ ub' = [ub EXCEPT ![w] = kq[w]] /\ kq' = [kq EXCEPT ![w] = <<>>]
  /\ UNCHANGED <<exists, gen, files, away, cur, auto, cdirs, wstate, tracked, watches, infl, gor, errs, idx, short, fsops, confs, obs>>
  /\ Rec(Act("read", "", "", 0, w, {}, FALSE))

\* takes the next buffered event; create/write events whose file is gone are dropped; a
\* delete-self makes fsnotify forget the watch (the kernel already has)
ReaderFetch(w) ==
  /\ wstate[w] = "open" /\ infl[w] = NoEv /\ ub[w] # <<>>
  /\ ub' = [ub EXCEPT ![w] = Tail(@)]
  /\ LET e == Head(ub[w]) IN
     \E drop \in (IF e.op \in {"create", "write"} /\ ~FileThere(e) THEN (IF LooseFilter THEN {TRUE, FALSE} ELSE {TRUE}) ELSE {FALSE}) :
        infl' = [infl EXCEPT ![w] = IF drop THEN NoEv ELSE e]
  /\ UNCHANGED <<exists, gen, files, away, cur, auto, cdirs, wstate, tracked, watches, kq, gor, errs, idx, short, fsops, confs, obs>>
  /\ Rec(Act("fetch", "", "", 0, w, {}, FALSE))

-----------------------------------------------------------------------------
(* the cache's watcher goroutine: watch.watch() *)

\* (the overflow notice arrives on the Errors channel, which the goroutine used to drain without looking)
Relevant(e) == /\ (e.op # "create" \/ FIX_CREATE)
               /\ (e.op \in {"create", "write"} => e.n = SpecName)
               /\ (e.op = "overflow" => FIX_OVERFLOW)

\* receive from Events and filter; with a relevant event it heads for the mutex
GorRecv(w) ==
  /\ gor[w].pc = "recv" /\ infl[w] # NoEv
  /\ infl' = [infl EXCEPT ![w] = NoEv]
  /\ gor' = [gor EXCEPT ![w] = IF Relevant(infl[w]) THEN [pc |-> "have", ev |-> infl[w]] ELSE @]
  /\ UNCHANGED <<exists, gen, files, away, cur, auto, cdirs, wstate, tracked, watches, kq, ub, errs, idx, short, fsops, confs, obs>>
  /\ Rec(Act(IF Relevant(infl[w]) THEN "recv" ELSE "recvdrop", infl[w].d, infl[w].n, 0, w, {}, FALSE))

\* the Events channel of a closed watcher is closed: the goroutine returns
GorExit(w) ==
  /\ gor[w].pc = "recv" /\ wstate[w] = "closed"
  /\ gor' = [gor EXCEPT ![w] = [pc |-> "dead", ev |-> NoEv]]
  /\ UNCHANGED <<exists, gen, files, away, cur, auto, cdirs, wstate, tracked, watches, kq, ub, infl, errs, idx, short, fsops, confs, obs>>
  /\ Rec(Act("exit", "", "", 0, w, {}, FALSE))

\* inotify_add_watch needs no new descriptor: only creating a watcher is affected by a shortage
CanAdd(d) == exists[d]

\* watch.update(dirErrors e, removed): as coded, against the *shared* tracked map and the
\* *current* watcher, but the dirErrors map the caller holds
UpdateResult(e, removed) ==
  LET t0 == IF FIX_READD THEN [d \in D |-> IF d \in removed /\ tracked[d] # "no" THEN "f" ELSE tracked[d]] ELSE tracked
      add == { d \in D : t0[d] = "f" /\ CanAdd(d) /\ wstate[cur] = "open" }
      t1  == [d \in D |-> IF d \in add THEN "t" ELSE t0[d]]
      t2  == IF FIX_READD THEN t1 ELSE [d \in D |-> IF d \in removed /\ tracked[d] # "no" THEN "f" ELSE t1[d]]
      er0 == IF FIX_READD THEN [d \in D |-> IF d \in removed THEN "removed" ELSE errs[e][d]] ELSE errs[e]
      er1 == [d \in D |-> IF d \in add THEN "none" ELSE IF t0[d] = "f" THEN "monitor" ELSE er0[d]]
      er2 == IF FIX_READD THEN er1 ELSE [d \in D |-> IF d \in removed THEN "removed" ELSE er1[d]]
  IN [tracked |-> t2, add |-> add, errs |-> er2, changed |-> (add # {} \/ removed # {})]

ApplyUpdate(e, removed) ==
  LET r == UpdateResult(e, removed) IN
  /\ tracked' = r.tracked
  /\ watches' = [watches EXCEPT ![cur] = [d \in D |-> IF d \in r.add THEN gen[d] ELSE @[d]]]
  /\ errs' = [errs EXCEPT ![e] = r.errs]

\* the watcher the shared watch struct points at: stop() keeps the pointer, only setup() replaces it
\* (by a new watcher, or by nil when creating one fails) - so after a switch to manual refresh the
\* pointer still is the stopped watcher, and its goroutine, if it holds an event, still rescans once
WatcherPtr == LET S == { x \in 1..cur : wstate[x] # "none" } IN
              IF S = {} THEN 0 ELSE CHOOSE x \in S : \A y \in S : y <= x

\* The cache mutex.  The watcher goroutine's critical section is TWO steps - update the watches, then
\* rescan - and the file system does not wait for it: directory operations may fall between the two
\* (and the kernel queues their events on whatever watches exist at that moment).  Queries, Configure
\* and the other goroutines do wait.
Locked == \E w \in Wids : gor[w].pc = "scan"

\* first half, taking the mutex: update the watch (or find out that the watcher has been replaced)
GorHandle(w) ==
  /\ gor[w].pc = "have" /\ ~Locked
  /\ IF FIX_STALE /\ w # WatcherPtr
     THEN \* its watcher has been replaced: nothing to do, the goroutine ends
          /\ gor' = [gor EXCEPT ![w] = [pc |-> "dead", ev |-> NoEv]]
          /\ UNCHANGED <<tracked, watches, errs>>
     ELSE /\ LET e == gor[w].ev
                 dirgone == /\ e.n = "." /\ tracked[e.d] = "t"
                            /\ (e.op = "remove" \/ (FIX_RENAMEDIR /\ e.op = "rename"))
                 \* after an overflow every watch is renewed: Remove + Add of all directories in the tracked map
             IN ApplyUpdate(w, IF e.op = "overflow" THEN { d \in D : tracked[d] # "no" } ELSE IF dirgone THEN {e.d} ELSE {})
          /\ gor' = [gor EXCEPT ![w] = [pc |-> "scan", ev |-> NoEv]]
  /\ UNCHANGED <<exists, gen, files, away, cur, auto, cdirs, wstate, kq, ub, infl, idx, short, fsops, confs, obs>>
  /\ Rec(Act("handle", gor[w].ev.d, gor[w].ev.n, 0, w, {}, FALSE))

\* second half: rescan, release the mutex
GorScan(w) ==
  /\ gor[w].pc = "scan"
  /\ idx' = IF short.t THEN NoIdx ELSE Scan(cdirs, errs[cur])
  /\ short' = [short EXCEPT !.r = short.t /\ FIX_RETRY]
  /\ gor' = [gor EXCEPT ![w] = [pc |-> IF wstate[w] = "closed" THEN "dead" ELSE "recv", ev |-> NoEv]]
  /\ UNCHANGED <<exists, gen, files, away, cur, auto, cdirs, wstate, tracked, watches, kq, ub, infl, errs, fsops, confs, obs>>
  /\ Rec(Act("scan", "", "", 0, w, {}, FALSE))

-----------------------------------------------------------------------------
(* API *)

\* any query: refreshIfRequired(false), then read the index
Query ==
  /\ ~Locked
  /\ IF auto /\ wstate[cur] = "nil"
     THEN /\ idx' = IF short.t THEN NoIdx ELSE Fresh(cdirs)                 \* no watcher: every query rescans
          /\ UNCHANGED <<tracked, watches, errs, short>>
     ELSE IF auto
     THEN /\ ApplyUpdate(cur, {})
          /\ LET rescan == UpdateResult(cur, {}).changed \/ short.r IN
             /\ idx' = IF ~rescan THEN idx ELSE IF short.t THEN NoIdx ELSE Scan(cdirs, errs'[cur])
             /\ short' = IF rescan THEN [short EXCEPT !.r = short.t /\ FIX_RETRY] ELSE short
     ELSE UNCHANGED <<tracked, watches, errs, idx, short>>
  /\ obs' = idx'
  /\ UNCHANGED <<exists, gen, files, away, cur, auto, cdirs, wstate, kq, ub, infl, gor, fsops, confs>>
  /\ Rec(Act("query", "", "", 0, 0, {}, FALSE))

\* Configure(WithSpecDirs(nd), WithAutoRefresh(na)): stop, set up, start, refresh
Configure(nd, na) ==
  /\ confs < MaxConfs /\ confs' = confs + 1 /\ cur < MaxWids /\ ~Locked
  /\ LET new == cur + 1
         \* fsnotify.NewWatcher succeeds: there are descriptors, or stop() has just closed a watcher and freed its own
         ok  == na /\ ((~short.w /\ ~short.t) \/ wstate[cur] = "open")
         add == IF ok THEN { d \in nd : exists[d] } ELSE {}    \* first update(): every existing directory is added
     IN
     /\ cur' = new /\ auto' = na /\ cdirs' = nd
     /\ wstate' = [wstate EXCEPT ![cur] = IF @ = "open" THEN "closed" ELSE @,
                                 ![new] = IF ~na THEN "none" ELSE IF ok THEN "open" ELSE "nil"]
     /\ kq' = [kq EXCEPT ![cur] = <<>>] /\ ub' = [ub EXCEPT ![cur] = <<>>] /\ infl' = [infl EXCEPT ![cur] = NoEv]
     /\ tracked' = [d \in D |-> IF ~na THEN "no" ELSE IF d \notin nd THEN "no" ELSE IF d \in add THEN "t" ELSE "f"]
     /\ watches' = [watches EXCEPT ![cur] = [d \in D |-> 0], ![new] = [d \in D |-> IF d \in add THEN gen[d] ELSE 0]]
     /\ errs' = [errs EXCEPT ![new] = [d \in D |-> IF ~na \/ d \notin nd THEN "none"
                                                   ELSE IF ~ok THEN "create"
                                                   ELSE IF d \in add THEN "none" ELSE "monitor"]]
     \* the old goroutine: blocked in receive -> sees the closed channel later; holding an event -> goes on to the mutex
     /\ gor' = [gor EXCEPT ![new] = IF ok THEN [pc |-> "recv", ev |-> NoEv] ELSE [pc |-> "dead", ev |-> NoEv]]
     /\ idx' = IF short.t THEN NoIdx ELSE [d \in D |-> IF d \in nd /\ exists[d] THEN files[d][SpecName] ELSE 0]
     /\ short' = [short EXCEPT !.r = short.t /\ FIX_RETRY]
  /\ UNCHANGED <<exists, gen, files, away, fsops, obs>>
  /\ Rec(Act("configure", "", "", 0, cur + 1, nd, na))

Shortage == /\ WithShortage /\ ~short.t /\ short' = [short EXCEPT !.w = ~@]
            /\ UNCHANGED <<exists, gen, files, away, cur, auto, cdirs, wstate, tracked, watches, kq, ub, infl, gor, errs, idx, fsops, confs, obs>>
            /\ Rec(Act("shortage", "", "", 0, 0, {}, ~short.w))
\* no descriptor at all, for a while (at most once per behaviour: it begins and it ends)
Exhaust  == /\ WithShortage /\ short.n < 2 /\ short' = [short EXCEPT !.t = ~@, !.n = @ + 1]
            /\ UNCHANGED <<exists, gen, files, away, cur, auto, cdirs, wstate, tracked, watches, kq, ub, infl, gor, errs, idx, fsops, confs, obs>>
            /\ Rec(Act("exhaust", "", "", 0, 0, {}, ~short.t))

FsOp == \/ \E d \in D, n \in Names, c \in 1..2 : CreateWrite(d, n, c) \/ Rewrite(d, n, c)
        \/ \E d \in D : RenameWithin(d) \/ MoveOut(d) \/ Rmdir(d) \/ Mkdir(d) \/ RenameDirAway(d)
        \/ \E d \in D, c \in 1..2 : MoveIn(d, c)
        \/ \E d \in D, n \in Names : RemoveFile(d, n)

Init ==
  /\ exists \in [D -> STARTS] /\ gen = [d \in D |-> 1] /\ files = [d \in D |-> EmptyFiles] /\ away = [d \in D |-> 0]
  /\ cur = 1 /\ auto = TRUE /\ cdirs \in DirOptions
  /\ wstate = [w \in Wids |-> IF w = 1 THEN "open" ELSE "none"]
  /\ tracked = [d \in D |-> IF d \notin cdirs THEN "no" ELSE IF exists[d] THEN "t" ELSE "f"]
  /\ watches = [w \in Wids |-> [d \in D |-> IF w = 1 /\ d \in cdirs /\ exists[d] THEN 1 ELSE 0]]
  /\ kq = [w \in Wids |-> <<>>] /\ ub = [w \in Wids |-> <<>>] /\ infl = [w \in Wids |-> NoEv]
  /\ gor = [w \in Wids |-> IF w = 1 THEN [pc |-> "recv", ev |-> NoEv] ELSE [pc |-> "none", ev |-> NoEv]]
  /\ errs = [e \in Wids |-> [d \in D |-> IF e = 1 /\ d \in cdirs /\ ~exists[d] THEN "monitor" ELSE "none"]]
  /\ idx = [d \in D |-> 0] /\ short = [w |-> FALSE, t |-> FALSE, r |-> FALSE, n |-> 0] /\ fsops = 0 /\ confs = 0
  /\ obs = [d \in D |-> 0]
  /\ hist = IF RECORD THEN <<[a |-> "init", d |-> "", n |-> "", c |-> 0, w |-> 1, nd |-> cdirs, na |-> TRUE, ex |-> { d \in D : exists[d] }]>> ELSE <<>>

Next == \/ FsOp
        \/ \E w \in Wids : ReaderRead(w) \/ ReaderFetch(w) \/ GorRecv(w) \/ GorExit(w) \/ GorHandle(w) \/ GorScan(w)
        \/ Query
        \/ \E nd \in DirOptions, na \in BOOLEAN : Configure(nd, na)
        \/ Shortage \/ Exhaust

Fair == /\ \A w \in Wids : WF_vars(ReaderRead(w)) /\ WF_vars(ReaderFetch(w)) /\ WF_vars(GorRecv(w)) /\ WF_vars(GorExit(w)) /\ WF_vars(GorHandle(w)) /\ WF_vars(GorScan(w))
        /\ WF_vars(Query)
Spec == Init /\ [][Next]_vars /\ Fair

-----------------------------------------------------------------------------
(* properties *)

\* C11: in auto mode, once the changes (and reconfigurations) have ceased, queries return
\* what a fresh cache on the final directories returns
\* (while no descriptor at all is left nothing can be read)
Converges == <>[]((auto /\ ~short.t) => obs = Fresh(cdirs))
\* ... and the same files/directories in error: a configured directory has an error entry iff it does not exist
\* (no shortage at the end)
ErrConverges == <>[]((auto /\ ~short.w /\ ~short.t /\ wstate[cur] = "open") => \A d \in cdirs : (errs[cur][d] = "none") <=> exists[d])

\* C20: watchers and goroutines do not accumulate
Live == { w \in Wids : gor[w].pc \in {"recv", "have", "scan"} }
OpenW == { w \in Wids : wstate[w] = "open" }
Bounded == /\ Cardinality(OpenW) <= 1
           /\ Cardinality(Live) <= 1 + Cardinality({ w \in Wids : w # cur /\ gor[w].pc \in {"recv", "have", "scan"} /\ wstate[w] = "closed" })
\* every stale goroutine is on its way out; eventually exactly the current one (or none) is left
Settles == <>[](Live \subseteq {cur} /\ (auto /\ wstate[cur] = "open" => cur \in Live))
\* right after Configure the index is that of a fresh cache; tracked covers exactly the final directories
ConfigureFresh == [][(cur' # cur /\ ~short.t) => (idx' = [d \in D |-> IF d \in cdirs' /\ exists[d] THEN files[d][SpecName] ELSE 0]
                                    /\ \A d \in D : (tracked'[d] # "no") <=> (auto' /\ d \in cdirs'))]_vars
\* kernel watches exist only for the current watcher and only on configured directories
WatchesOK == \A w \in Wids, d \in D : (watches[w][d] # 0 /\ wstate[w] = "open") => (w = cur /\ d \in cdirs)
\* manual mode answers from the last explicit scan only: not modelled beyond Configure
TypeOK == cur \in Wids /\ fsops \in 0..MaxFsOps /\ confs \in 0..MaxConfs

\* behaviours for the replay harness: printed from quiescent states with the budgets used up
Quiescent == \A w \in Wids : kq[w] = <<>> /\ ub[w] = <<>> /\ infl[w] = NoEv /\ gor[w].pc \notin {"have", "scan"}
EmitRow == (RECORD /\ fsops = MaxFsOps /\ confs = MaxConfs /\ Quiescent /\ Len(hist) > 1 /\ hist[Len(hist)].a = "query")
             => PrintT(ToJson([hist |-> hist, cdirs |-> cdirs, auto |-> auto, fresh |-> Fresh(cdirs),
                               missing |-> { d \in cdirs : ~exists[d] }, obs |-> obs]))

\* output-only / budget variables are kept (budgets bound the behaviour); obs is part of the property
=============================================================================
