\* C03: random edit lists of up to 7 atoms (tlc -simulate)
SPECIFICATION Spec
CONSTANTS
  InitSpecs <- MCInitSpecs
  Hosts <- MCHosts
  EnvAtoms <- MCEnv
  NodeAtoms <- MCNodes
  MountAtoms <- MCMounts
  HookAtoms <- MCHooks
  GidAtoms <- MCGids
  RdtAtoms <- MCRdt
  MaxAtoms = 7
  EMIT = TRUE
INVARIANTS EnvOK NodesOK MountsOK RestOK EmitRow
