\* C11 thorough: two directories, <= 4 file-system operations
SPECIFICATION Spec
CONSTANTS
  D = {"A", "B"}
  DirOptions = {{"A", "B"}}
  MaxFsOps = 4
  MaxConfs = 0
  MaxWids = 1
  STARTS = {TRUE, FALSE}
  WithTmp = FALSE
  WithShortage = FALSE
  WithRenameAway = FALSE
  FIX_CREATE = TRUE
  FIX_READD = TRUE
  FIX_STALE = TRUE
  FIX_RENAMEDIR = TRUE
  FIX_SCANWATCHED = TRUE
  FIX_RETRY = TRUE
  FIX_OVERFLOW = TRUE
  QMax = 99
  RECORD = FALSE
INVARIANTS TypeOK Bounded WatchesOK
PROPERTIES Converges ErrConverges Settles ConfigureFresh
