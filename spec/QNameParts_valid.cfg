\* valid-rich: parts over letters, digits and the allowed punctuation only
SPECIFICATION Spec
CONSTANTS
  PartAlphabet = {"a", "0", "_", ":", "."}
  LongLen = 3
  ShortLen = 1
  EMIT = TRUE
INVARIANTS ComposeParse OnlyValid EmitRow
