package main

// lin: C12 ("every result reflects one snapshot") as a linearizability check.  Concurrent
// client goroutines call Refresh and the query API on three caches (manual refresh; auto-refresh
// without a watcher = every query rescans; auto-refresh with a watcher) while a switcher
// replaces the only Spec file atomically with contents of increasing version.  Calls, returns
// (with the version the result shows) and the switcher's renames are logged in one total order;
// tools/lintrace.py has TLC validate each log against spec/CacheLin.tla.

import (
	"encoding/json"
	"flag"
	"fmt"
	"math/rand"
	"os"
	"path/filepath"
	"strconv"
	"strings"
	"sync"
	"sync/atomic"
	"syscall"
	"time"

	oci "github.com/opencontainers/runtime-spec/specs-go"
	"tags.cncf.io/container-device-interface/pkg/cdi"
	specs "tags.cncf.io/container-device-interface/specs-go"
)

func init() { register("lin", linMain) }

const linKind = "lin.com/cls"

// content of version v: devices x, y and v<v>; every edit names the version
func linContent(v int) []byte {
	s := &specs.Spec{Version: "0.3.0", Kind: linKind}
	s.ContainerEdits.Env = []string{fmt.Sprintf("SPEC=%d", v)}
	for _, n := range []string{"x", "y", fmt.Sprintf("v%d", v)} {
		s.Devices = append(s.Devices, specs.Device{Name: n, ContainerEdits: specs.ContainerEdits{Env: []string{fmt.Sprintf("DEV_%s=%d", n, v)}}})
	}
	b, _ := json.Marshal(s)
	return b
}

type linEvent struct {
	E  string `json:"e"`
	T  int    `json:"t"`
	C  string `json:"c"`
	Op string `json:"op"`
	V  int    `json:"v"`
}

type linLog struct {
	mu  sync.Mutex
	evs []linEvent
}

func (l *linLog) add(e linEvent) int {
	l.mu.Lock()
	defer l.mu.Unlock()
	l.evs = append(l.evs, e)
	return len(l.evs)
}

func atoiOr(s string, d int) int {
	if n, err := strconv.Atoi(s); err == nil {
		return n
	}
	return d
}

// the version a result shows; -1 when it is not one content completely
func linListVersion(devs []string) int {
	v, n, x, y := -1, 0, false, false
	for _, q := range devs {
		if !strings.HasPrefix(q, linKind+"=") {
			continue
		}
		n++
		switch name := strings.TrimPrefix(q, linKind+"="); {
		case name == "x":
			x = true
		case name == "y":
			y = true
		case strings.HasPrefix(name, "v"):
			v = atoiOr(name[1:], -1)
		}
	}
	if n != 3 || !x || !y {
		return -1
	}
	return v
}

func linSpecVersion(s *cdi.Spec) int {
	if s == nil || len(s.Devices) != 3 {
		return -1
	}
	v := atoiOr(envVal(s.ContainerEdits.Env, "SPEC"), -1)
	for _, d := range s.Devices {
		if atoiOr(envVal(d.ContainerEdits.Env, "DEV_"+d.Name), -2) != v {
			return -1
		}
	}
	if s.Devices[2].Name != fmt.Sprintf("v%d", v) {
		return -1
	}
	return v
}

func linMain(args []string) int {
	fs := flag.NewFlagSet("lin", flag.ExitOnError)
	var cf commonFlags
	addCommon(fs, &cf)
	ntraces := fs.Int("traces", 4, "executions to record")
	nevents := fs.Int("events", 600, "log entries per execution (approximately)")
	nclients := fs.Int("clients", 3, "client goroutines")
	out := fs.String("out", "", "directory for the traces")
	_ = fs.Parse(args)
	start := time.Now()
	col := newCollector()
	if *out == "" {
		fmt.Fprintln(os.Stderr, "lin: -out required")
		return 2
	}
	_ = os.MkdirAll(*out, 0o755)
	for tr := 0; tr < *ntraces; tr++ {
		root := mkScratch("lin")
		dir, stage := filepath.Join(root, "cdi"), filepath.Join(root, "stage")
		_ = os.MkdirAll(dir, 0o755)
		_ = os.MkdirAll(stage, 0o755)
		target := filepath.Join(dir, "x.json")
		_ = os.WriteFile(target, linContent(1), 0o644)

		caches := map[string]*cdi.Cache{}
		caches["manual"], _ = cdi.NewCache(cdi.WithSpecDirs(dir), cdi.WithAutoRefresh(false))
		caches["auto"], _ = cdi.NewCache(cdi.WithSpecDirs(dir), cdi.WithAutoRefresh(true))
		{
			var old syscall.Rlimit
			_ = syscall.Getrlimit(syscall.RLIMIT_NOFILE, &old)
			lim := syscall.Rlimit{Cur: uint64(countResources().Fds + 1), Max: old.Max}
			_ = syscall.Setrlimit(syscall.RLIMIT_NOFILE, &lim)
			c1, _ := cdi.NewCache(cdi.WithSpecDirs(dir), cdi.WithAutoRefresh(true))
			_ = syscall.Setrlimit(syscall.RLIMIT_NOFILE, &old)
			if c1 != nil && len(c1.GetErrors()) > 0 {
				caches["rescan"] = c1
				col.count("caches_without_watcher", 1)
			} else if c1 != nil {
				_ = c1.Configure(cdi.WithAutoRefresh(false))
			}
		}
		var names []string
		for _, n := range []string{"manual", "rescan", "auto"} {
			if caches[n] != nil {
				names = append(names, n)
			}
		}
		log := &linLog{}
		log.add(linEvent{E: "init", V: 1})
		var stop int32
		var wg sync.WaitGroup
		// the switcher: versions 2, 3, ...; at a varying pace so that calls overlap zero, one or several renames
		wg.Add(1)
		go func(seed int64) {
			defer wg.Done()
			r := rand.New(rand.NewSource(seed))
			for v := 2; atomic.LoadInt32(&stop) == 0; v++ {
				tmp := filepath.Join(stage, fmt.Sprintf("s%d", v%4))
				_ = os.WriteFile(tmp, linContent(v), 0o644)
				log.add(linEvent{E: "swb", V: v})
				_ = os.Rename(tmp, target)
				log.add(linEvent{E: "swe", V: v})
				time.Sleep(time.Duration(50+r.Intn(600)) * time.Microsecond)
			}
		}(cf.seed*1000 + int64(tr))
		ops := []string{"Refresh", "GetDevice", "ListDevices", "InjectDevices", "GetVendorSpecs", "GetSpec", "GetErrors"}
		for cl := 1; cl <= *nclients; cl++ {
			wg.Add(1)
			go func(t int, seed int64) {
				defer wg.Done()
				r := rand.New(rand.NewSource(seed))
				for atomic.LoadInt32(&stop) == 0 {
					cn := names[r.Intn(len(names))]
					c := caches[cn]
					op := ops[r.Intn(len(ops))]
					if cn != "rescan" && r.Intn(12) == 0 {
						op = "Configure" // with the options it has: a new cache, i.e. scanned (and the watcher restarted)
					}
					if cn == "manual" && r.Intn(3) == 0 {
						op = "Refresh" // otherwise the manual cache hardly ever moves
					}
					log.add(linEvent{E: "call", T: t, C: cn, Op: op})
					v := 0
					switch op {
					case "Refresh":
						_ = c.Refresh()
					case "GetDevice":
						d := c.GetDevice(linKind + "=y")
						if d == nil {
							v = -1
						} else if v = linSpecVersion(d.GetSpec()); atoiOr(envVal(d.ContainerEdits.Env, "DEV_y"), -2) != v {
							v = -1
						}
					case "ListDevices":
						v = linListVersion(c.ListDevices())
					case "InjectDevices":
						sp := &oci.Spec{}
						_, err := c.InjectDevices(sp, linKind+"=x", linKind+"=y")
						if err != nil || sp.Process == nil {
							v = -1
						} else if v = atoiOr(envVal(sp.Process.Env, "SPEC"), -1); atoiOr(envVal(sp.Process.Env, "DEV_x"), -2) != v || atoiOr(envVal(sp.Process.Env, "DEV_y"), -2) != v {
							v = -1
						}
					case "GetVendorSpecs":
						ss := c.GetVendorSpecs("lin.com")
						if len(ss) != 1 {
							v = -1
						} else {
							v = linSpecVersion(ss[0])
						}
					case "GetSpec":
						// two queries in one call would be two linearization points: use the device's Spec only
						if d := c.GetDevice(linKind + "=x"); d == nil {
							v = -1
						} else {
							v = linSpecVersion(d.GetSpec())
						}
					case "GetErrors":
						_ = c.GetErrors()
					case "Configure":
						_ = c.Configure(cdi.WithAutoRefresh(cn == "auto"))
					}
					n := log.add(linEvent{E: "ret", T: t, V: v})
					if n >= *nevents {
						atomic.StoreInt32(&stop, 1)
					}
					if r.Intn(4) == 0 {
						time.Sleep(time.Duration(r.Intn(300)) * time.Microsecond)
					}
				}
			}(cl, cf.seed*7919+int64(tr)*131+int64(cl))
		}
		// watchdog: the log not growing for 20 s while the clients are still at it = stall (a lock never released)
		fin := make(chan struct{})
		go func() { wg.Wait(); close(fin) }()
		stalled := false
		for last, lastT := -1, time.Now(); !stalled; {
			select {
			case <-fin:
			case <-time.After(500 * time.Millisecond):
				log.mu.Lock()
				n := len(log.evs)
				log.mu.Unlock()
				if n != last {
					last, lastT = n, time.Now()
				} else if time.Since(lastT) > 20*time.Second {
					stalled = true
				}
				continue
			}
			break
		}
		if stalled {
			col.add(Mismatch{Case: tr, Step: -1, Props: []string{"C12"}, What: "stall", Note: "no call returned for 20 s during the linearizability recording"})
			col.finish(start)
			os.Exit(1)
		}
		for _, c := range caches {
			_ = c.Configure(cdi.WithAutoRefresh(false))
		}
		_ = os.RemoveAll(root)
		f, err := os.Create(filepath.Join(*out, fmt.Sprintf("lin-%d-%d.ndjson", cf.seed, tr)))
		if err != nil {
			fmt.Fprintln(os.Stderr, "lin:", err)
			return 2
		}
		enc := json.NewEncoder(f)
		mixed := 0
		for _, e := range log.evs {
			_ = enc.Encode(e)
			if e.E == "ret" && e.V == -1 {
				mixed++
			}
		}
		_ = f.Close()
		col.count("events", len(log.evs))
		col.count("results_not_one_content", mixed)
		row, _ := json.Marshal(map[string]interface{}{"trace": tr, "events": len(log.evs), "caches": names})
		col.done(row, true, len(log.evs))
	}
	return col.finish(start)
}
