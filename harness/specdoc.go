package main

// oracle-doc: rows of spec/SpecDocGen.tla ([doc, adm, wf, req]) rendered as JSON and YAML
// text and pushed through every way a Spec document enters the library: ReadSpec/ParseSpec,
// a cache refresh (with a good neighbour file) and Cache.WriteSpec.

import (
	"encoding/json"
	"flag"
	"fmt"
	"os"
	"path/filepath"
	"strings"
	"time"

	"sigs.k8s.io/yaml"
	"tags.cncf.io/container-device-interface/pkg/cdi"
	specs "tags.cncf.io/container-device-interface/specs-go"
)

func init() { register("oracle-doc", oracleDocMain) }

type tEdits struct {
	Present bool     `json:"present"`
	Env     []string `json:"env"`
	Nodes   []string `json:"nodes"`
	Mounts  []string `json:"mounts"`
	Hooks   []string `json:"hooks"`
	Rdt     string   `json:"rdt"`
	Gids    []string `json:"gids"`
	Xtra    string   `json:"xtra"`
}

type tDev struct {
	Name  string `json:"name"`
	Ann   string `json:"ann"`
	Edits tEdits `json:"edits"`
	Xtra  string `json:"xtra"`
}

type tDoc struct {
	Ver     string `json:"ver"`
	Kind    string `json:"kind"`
	Ann     string `json:"ann"`
	Edits   tEdits `json:"edits"`
	Devs    []tDev `json:"devs"`
	DevForm string `json:"devform"`
	Xtra    string `json:"xtra"`
}

type tDocRow struct {
	Doc  tDoc   `json:"doc"`
	Adm  bool   `json:"adm"`
	WF   bool   `json:"wf"`
	Req  string `json:"req"`
	NMut int    `json:"nmut"`
}

type obj = map[string]interface{}
type omit struct{}

func put(o obj, k string, v interface{}) {
	if _, skip := v.(omit); !skip {
		o[k] = v
	}
}

func verVal(t string) interface{} {
	switch t {
	case "missing":
		return omit{}
	case "unreleased":
		return "0.9.0"
	case "short":
		return "0.7"
	case "rc":
		return "0.7.0-rc1"
	case "space":
		return " 0.7.0"
	case "empty":
		return ""
	case "patch":
		return "1.0.1"
	case "number":
		return 0.7
	case "major":
		return "1"
	}
	return t
}

func kindVal(t string) interface{} {
	m := map[string]interface{}{"plain": "v1.com/cls", "onev": "v/cls", "onec": "v1.com/c", "dotted": "v1.com/a.b",
		"under": "v_1-x.com/c_l-s", "missing": omit{}, "noslash": "vendorclass", "emptyv": "/cls", "emptyc": "v1.com/",
		"twoslash": "v1.com/a/b", "digitv": "1v.com/cls", "dashv": "-v.com/cls", "dotend": "v1.com./cls", "undend": "v1.com/cls_",
		"blank": "v1 .com/cls", "utf": "vé.com/cls", "number": 5}
	if v, ok := m[t]; ok {
		return v
	}
	return "??" + t
}

func nameVal(t string, k int, first string) interface{} {
	switch t {
	case "x":
		return fmt.Sprintf("d%d", k)
	case "digit":
		return fmt.Sprintf("%dd", k)
	case "punct":
		return fmt.Sprintf("d%d:a.b_c-d", k)
	case "one":
		return string("abcdefgh"[k-1])
	case "missing":
		return omit{}
	case "empty":
		return ""
	case "lead":
		return fmt.Sprintf(":d%d", k)
	case "trail":
		return fmt.Sprintf("d%d.", k)
	case "blank":
		return fmt.Sprintf("d %d", k)
	case "slash":
		return fmt.Sprintf("d/%d", k)
	case "eq":
		return fmt.Sprintf("d=%d", k)
	case "utf":
		return fmt.Sprintf("dé%d", k)
	case "dup":
		return first
	case "number":
		return 5
	}
	return "??" + t
}

func annVal(t string) interface{} {
	switch t {
	case "none":
		return omit{}
	case "null":
		return nil
	case "empty":
		return obj{}
	case "simple":
		return obj{"k": "v"}
	case "prefixed":
		return obj{"example.com/Name": "v"}
	case "n63":
		return obj{"example.com/" + strings.Repeat("a", 63): "v"}
	case "two":
		return obj{"a": "1", "b.c/d": "2"}
	case "multiline":
		return obj{"k": "line1\nline2 \u00e9\u2603\n"}
	case "emptykey":
		return obj{"": "v"}
	case "n64":
		return obj{"example.com/" + strings.Repeat("a", 64): "v"}
	case "badprefix":
		return obj{"-bad.com/x": "v"}
	case "threeparts":
		return obj{"a/b/c": "v"}
	case "leaddash":
		return obj{"-x": "v"}
	case "toolarge":
		return obj{"k": strings.Repeat("v", 256*1024+1)}
	case "sumlarge":
		return obj{"k1": strings.Repeat("v", 100*1024), "k2": strings.Repeat("v", 100*1024), "k3": strings.Repeat("v", 100*1024)}
	case "nonstring":
		return obj{"k": 5}
	case "list":
		return []interface{}{"a"}
	}
	return "??" + t
}

func envTokVal(t string) interface{} {
	m := map[string]interface{}{"ok": "A=b", "emptyval": "A=", "twoeq": "A=b=c", "multiline": "CERT=line1\nline2", "unicode": "\u00c4=\u00e9\u2603", "spaces": "A B= c ", "ctl": "A=x\u007fy\u0085z", "noeq": "A", "noname": "=b", "empty": "", "null": nil, "number": 5}
	return m[t]
}

func nodeVal(t string) interface{} {
	p := "/dev/n"
	switch t {
	case "path":
		return obj{"path": p}
	case "typed":
		return obj{"path": p, "type": "c", "major": 1, "minor": 2}
	case "blk":
		return obj{"path": p, "type": "b", "major": 8}
	case "unbuf":
		return obj{"path": p, "type": "u", "major": 8, "minor": 1}
	case "fifo":
		return obj{"path": p, "type": "p"}
	case "perm":
		return obj{"path": p, "permissions": "rw"}
	case "permall":
		return obj{"path": p, "permissions": "rwm"}
	case "permlong":
		return obj{"path": p, "permissions": "rwmrw"} // letters within rwm, repeated
	case "owner":
		return obj{"path": p, "fileMode": 432, "uid": 1, "gid": 2}
	case "hostpath":
		return obj{"path": p, "hostPath": "/dev/h"}
	case "null":
		return nil
	case "nopath":
		return obj{"type": "c"}
	case "emptypath":
		return obj{"path": ""}
	case "badtype":
		return obj{"path": p, "type": "x"}
	case "multitype":
		return obj{"path": p, "type": "bc"}
	case "badperm":
		return obj{"path": p, "permissions": "rx"}
	case "strmajor":
		return obj{"path": p, "major": "1"}
	case "unknown":
		return obj{"path": p, "bogus": 1}
	case "list":
		return []interface{}{"x"}
	}
	return "??" + t
}

func mountVal(t string) interface{} {
	switch t {
	case "ok":
		return obj{"hostPath": "/h", "containerPath": "/c"}
	case "opts":
		return obj{"hostPath": "/h", "containerPath": "/c", "options": []interface{}{"ro", "nosuid"}}
	case "typed":
		return obj{"hostPath": "/h", "containerPath": "/c", "type": "bind"}
	case "richopts":
		return obj{"hostPath": "/h h", "containerPath": "/c", "options": []interface{}{"mode=755,x", "a b", "two\nlines"}}
	case "null":
		return nil
	case "nohost":
		return obj{"containerPath": "/c"}
	case "emptyhost":
		return obj{"hostPath": "", "containerPath": "/c"}
	case "nocont":
		return obj{"hostPath": "/h"}
	case "emptycont":
		return obj{"hostPath": "/h", "containerPath": ""}
	case "unknown":
		return obj{"hostPath": "/h", "containerPath": "/c", "bogus": 1}
	case "number":
		return 5
	}
	return "??" + t
}

func hookVal(t string) interface{} {
	switch t {
	case "prestart", "createRuntime", "createContainer", "startContainer", "poststart", "poststop":
		return obj{"hookName": t, "path": "/bin/h"}
	case "full":
		return obj{"hookName": "prestart", "path": "/bin/h", "args": []interface{}{"h", "-x"}, "env": []interface{}{"A=b"}, "timeout": 5}
	case "rich":
		return obj{"hookName": "createRuntime", "path": "/bin/h", "args": []interface{}{"h", "two\nlines", "\u00e9"}, "env": []interface{}{"A=b\nc", "B= \u2603"}}
	case "null":
		return nil
	case "badstage":
		return obj{"hookName": "bogusStage", "path": "/bin/h"}
	case "nostage":
		return obj{"path": "/bin/h"}
	case "nopath":
		return obj{"hookName": "prestart"}
	case "emptypath":
		return obj{"hookName": "prestart", "path": ""}
	case "badenv":
		return obj{"hookName": "prestart", "path": "/bin/h", "env": []interface{}{"A"}}
	case "unknown":
		return obj{"hookName": "prestart", "path": "/bin/h", "bogus": 1}
	case "strtimeout":
		return obj{"hookName": "prestart", "path": "/bin/h", "timeout": "5"}
	}
	return "??" + t
}

func rdtVal(t string) interface{} {
	switch t {
	case "none":
		return omit{}
	case "null":
		return nil
	case "empty":
		return obj{}
	case "clos":
		return obj{"closID": "clos1"}
	case "full":
		return obj{"closID": "clos1", "l3CacheSchema": "L3:0=f", "memBwSchema": "MB:0=70", "enableCMT": true, "enableMBM": true}
	case "dot":
		return obj{"closID": "."}
	case "dotdot":
		return obj{"closID": ".."}
	case "slash":
		return obj{"closID": "a/b"}
	case "newline":
		return obj{"closID": "a\nb"}
	case "long":
		return obj{"closID": strings.Repeat("a", 4096)}
	case "unknown":
		return obj{"closID": "c", "bogus": 1}
	case "number":
		return 5
	}
	return "??" + t
}

func gidVal(t string) interface{} {
	m := map[string]interface{}{"five": 5, "zero": 0, "max": uint64(4294967295), "neg": -1, "big": uint64(4294967296), "string": "5"}
	return m[t]
}

func listOf(toks []string, f func(string) interface{}) []interface{} {
	out := []interface{}{}
	for _, t := range toks {
		out = append(out, f(t))
	}
	return out
}

func editsVal(e tEdits, explicitEmpty bool) interface{} {
	if !e.Present {
		return omit{}
	}
	o := obj{}
	add := func(k string, toks []string, f func(string) interface{}) {
		if len(toks) > 0 || explicitEmpty {
			o[k] = listOf(toks, f)
		}
	}
	add("env", e.Env, envTokVal)
	add("deviceNodes", e.Nodes, nodeVal)
	add("mounts", e.Mounts, mountVal)
	add("hooks", e.Hooks, hookVal)
	add("additionalGids", e.Gids, gidVal)
	put(o, "intelRdt", rdtVal(e.Rdt))
	if e.Xtra == "extra" {
		o["bogus"] = 1
	}
	return o
}

func renderDoc(d tDoc, explicitEmpty bool) obj {
	o := obj{}
	put(o, "cdiVersion", verVal(d.Ver))
	put(o, "kind", kindVal(d.Kind))
	put(o, "annotations", annVal(d.Ann))
	put(o, "containerEdits", editsVal(d.Edits, explicitEmpty))
	if d.Xtra == "extra" {
		o["bogus"] = 1
	}
	devs := []interface{}{}
	first := ""
	for i, dv := range d.Devs {
		do := obj{}
		nv := nameVal(dv.Name, i+1, first)
		if i == 0 {
			if s, ok := nv.(string); ok {
				first = s
			}
		}
		put(do, "name", nv)
		put(do, "annotations", annVal(dv.Ann))
		put(do, "containerEdits", editsVal(dv.Edits, explicitEmpty))
		if dv.Xtra == "extra" {
			do["bogus"] = 1
		}
		devs = append(devs, do)
	}
	switch d.DevForm {
	case "list":
		o["devices"] = devs
	case "missing":
	case "null":
		o["devices"] = nil
	case "emptylist":
		o["devices"] = []interface{}{}
	case "nullentry":
		o["devices"] = append([]interface{}{nil}, devs...)
	case "object":
		o["devices"] = obj{"name": "d1"}
	}
	return o
}

const goodNeighbour = `{"cdiVersion":"0.3.0","kind":"neighbour.org/ok","devices":[{"name":"n","containerEdits":{"env":["N=1"]}}]}`

func permutations(n int) [][]int {
	if n <= 1 {
		return [][]int{{0}}[:n]
	}
	var out [][]int
	var rec func(cur []int, used []bool)
	rec = func(cur []int, used []bool) {
		if len(cur) == n {
			out = append(out, append([]int(nil), cur...))
			return
		}
		for i := 0; i < n; i++ {
			if !used[i] {
				used[i] = true
				rec(append(cur, i), used)
				used[i] = false
			}
		}
	}
	rec(nil, make([]bool, n))
	return out
}

func oracleDocRow(idx int, line []byte, seed int64, col *collector) {
	var row tDocRow
	if err := json.Unmarshal(line, &row); err != nil {
		col.add(Mismatch{Case: idx, Step: -1, Props: []string{"TOOL"}, What: "bad-row", Note: err.Error()})
		return
	}
	root := mkScratch("doc")
	defer os.RemoveAll(root)
	tree := renderDoc(row.Doc, (seed+int64(idx))%2 == 0)
	jb, err := json.Marshal(tree)
	jb = escapeCtl(jb)
	if err != nil {
		col.add(Mismatch{Case: idx, Step: -1, Props: []string{"TOOL"}, What: "render", Note: err.Error()})
		return
	}
	yb, err := yaml.JSONToYAML(jb)
	if err != nil {
		col.add(Mismatch{Case: idx, Step: -1, Props: []string{"TOOL"}, What: "render-yaml", Note: err.Error()})
		return
	}
	props := []string{"C05"}
	if row.WF {
		props = []string{"C05", "C06"} // only the version rule can decide a well-formed document
	}
	short := func(b []byte) string {
		if len(b) > 1500 {
			return string(b[:1500]) + "..."
		}
		return string(b)
	}
	report := func(step int, m Mismatch) {
		m.Case, m.Step, m.Row = idx, step, json.RawMessage(line)
		if m.Note == "" {
			m.Note = short(jb)
		}
		col.add(m)
	}
	steps := 0
	for ei, enc := range []struct {
		ext  string
		data []byte
	}{{".json", jb}, {".yaml", yb}} {
		ei, enc := ei, enc
		pan, stack, hung := guarded(60*time.Second, func() {
			// 1. a file read with ReadSpec (and ParseSpec on the bytes)
			dir := filepath.Join(root, "d"+enc.ext[1:])
			_ = os.MkdirAll(dir, 0o755)
			path := filepath.Join(dir, "doc"+enc.ext)
			_ = os.WriteFile(path, enc.data, 0o644)
			_ = os.WriteFile(filepath.Join(dir, "neighbour.json"), []byte(goodNeighbour), 0o644)
			raw, perr := cdi.ParseSpec(enc.data)
			sp, rerr := cdi.ReadSpec(path, 0)
			steps++
			if (rerr == nil) != row.Adm {
				report(ei, Mismatch{Props: props, What: "ReadSpec-admission", Want: row.Adm, Got: fmt.Sprint(rerr), Note: short(enc.data)})
			}
			if perr != nil && rerr == nil {
				report(ei, Mismatch{Props: props, What: "ParseSpec-fails-but-ReadSpec-accepts", Got: perr.Error()})
			}
			if rerr == nil && sp == nil {
				report(ei, Mismatch{Props: props, What: "ReadSpec-nil-without-error"})
			}
			// 2. through the cache: in error iff inadmissible; the neighbour is unaffected
			cache, _ := cdi.NewCache(cdi.WithSpecDirs(dir), cdi.WithAutoRefresh(false))
			_, inErr := cache.GetErrors()[path]
			steps++
			if inErr == row.Adm {
				report(ei, Mismatch{Props: props, What: "cache-admission", Want: row.Adm, Got: fmt.Sprint(cache.GetErrors()[path]), Note: short(enc.data)})
			}
			if cache.GetDevice("neighbour.org/ok=n") == nil {
				report(ei, Mismatch{Props: []string{"C05", "C13"}, What: "neighbour-file-affected"})
			}
			if row.Adm && sp != nil {
				for _, d := range sp.Devices {
					q := sp.GetVendor() + "/" + sp.GetClass() + "=" + d.Name
					if cache.GetDevice(q) == nil {
						report(ei, Mismatch{Props: props, What: "admitted-device-does-not-resolve", Want: q})
					}
				}
			}
			// 3. handed to the writer (only what a Go value can express)
			if perr == nil && raw != nil {
				wdir := filepath.Join(root, "w"+enc.ext[1:])
				wc, _ := cdi.NewCache(cdi.WithSpecDirs(wdir), cdi.WithAutoRefresh(false))
				werr := wc.WriteSpec(raw, "written"+enc.ext)
				steps++
				if (werr == nil) != row.Adm {
					report(ei, Mismatch{Props: props, What: "WriteSpec-admission", Want: row.Adm, Got: fmt.Sprint(werr), Note: short(enc.data)})
				}
				if werr != nil {
					if ents, _ := os.ReadDir(wdir); len(ents) > 0 {
						report(ei, Mismatch{Props: []string{"C05", "C10"}, What: "rejected-write-left-files", Got: len(ents)})
					}
				}
				// C06: the minimum version, for every order of the devices
				if row.WF {
					for _, p := range permutations(len(raw.Devices)) {
						cp := *raw
						cp.Devices = make([]specs.Device, len(raw.Devices))
						for i, j := range p {
							cp.Devices[i] = raw.Devices[j]
						}
						mv, merr := specs.MinimumRequiredVersion(&cp)
						steps++
						if merr != nil || mv != row.Req {
							report(ei, Mismatch{Props: []string{"C06"}, What: "minimum-required-version", Want: row.Req, Got: fmt.Sprint(mv, " ", merr), Note: fmt.Sprintf("device order %v: %s", p, short(jb))})
						}
						if verr := specs.ValidateVersion(&cp); (verr == nil) != row.Adm {
							report(ei, Mismatch{Props: []string{"C06"}, What: "ValidateVersion", Want: row.Adm, Got: fmt.Sprint(verr), Note: fmt.Sprintf("device order %v: %s", p, short(jb))})
						}
						if mv2, _ := cdi.MinimumRequiredVersion(&cp); mv2 != mv {
							report(ei, Mismatch{Props: []string{"C06"}, What: "cdi.MinimumRequiredVersion-differs", Want: mv, Got: mv2})
						}
					}
				}
			} else if row.WF {
				report(ei, Mismatch{Props: props, What: "well-formed-document-does-not-parse", Got: fmt.Sprint(perr), Note: short(enc.data)})
			}
		})
		if pan != nil {
			report(ei, Mismatch{Props: []string{"C08", "C05"}, What: "panic", Got: fmt.Sprint(pan), Note: short(enc.data) + "\n" + stack})
		}
		if hung {
			report(ei, Mismatch{Props: []string{"C08", "C05"}, What: "hang", Note: short(enc.data)})
		}
	}
	if row.Adm {
		col.count("admissible_rows", 1)
	}
	col.done(line, true, steps)
}

func oracleDocMain(args []string) int {
	fs := flag.NewFlagSet("oracle-doc", flag.ExitOnError)
	var cf commonFlags
	addCommon(fs, &cf)
	_ = fs.Parse(args)
	start := time.Now()
	col := newCollector()
	if err := forEachCase(&cf, func(idx int, line []byte) { oracleDocRow(idx, line, cf.seed, col) }); err != nil {
		fmt.Fprintln(os.Stderr, err)
		return 2
	}
	return col.finish(start)
}
