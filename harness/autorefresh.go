package main

// auto-errors: C13 on a cache in automatic refresh mode, where an explicit Refresh() is the first
// operation after a repair: a configured directory that was missing (or below a regular file) when
// the cache was set up appears with one invalid and one valid Spec file.  Refresh() has to return
// an error, the invalid file has to be in the error report, the valid file's device has to resolve;
// after the invalid file has been repaired the first Refresh() returns nil and the entry is gone.

import (
	"flag"
	"fmt"
	"os"
	"path/filepath"
	"time"

	"tags.cncf.io/container-device-interface/pkg/cdi"
)

func init() { register("auto-errors", autoErrorsMain) }

func autoErrorsMain(args []string) int {
	fs := flag.NewFlagSet("auto-errors", flag.ExitOnError)
	_ = fs.Int64("seed", 1, "seed")
	_ = fs.Parse(args)
	start := time.Now()
	col := newCollector()
	for _, world := range []string{"missing", "below a regular file"} {
		for _, order := range []string{"first", "last"} {
			world, order := world, order
			sc := fmt.Sprintf(`{"scenario":"directory %s, listed %s"}`, world, order)
			report := func(what string, want, got interface{}) {
				col.add(Mismatch{Props: []string{"C13"}, What: what, Want: want, Got: got, Note: sc})
			}
			pan, stack, hung := guarded(60*time.Second, func() {
				root := mkScratch("autoerr")
				defer os.RemoveAll(root)
				ok := filepath.Join(root, "ok")
				_ = os.Mkdir(ok, 0o755)
				_ = os.WriteFile(filepath.Join(ok, "k.json"), specBytes("vk.com/cls", 1), 0o644)
				top := filepath.Join(root, "top")
				late := filepath.Join(top, "late")
				if world == "missing" {
					_ = os.Mkdir(top, 0o755)
				} else {
					_ = os.WriteFile(top, []byte("x"), 0o644)
				}
				dirs := []string{late, ok}
				if order == "last" {
					dirs = []string{ok, late}
				}
				cache, _ := cdi.NewCache(cdi.WithSpecDirs(dirs...), cdi.WithAutoRefresh(true))
				defer func() { _ = cache.Configure(cdi.WithAutoRefresh(false)) }()
				// the repair of the directory, with a failing and a good file in it
				_ = os.Remove(top)
				_ = os.MkdirAll(late, 0o755)
				bad := filepath.Join(late, "bad.json")
				_ = os.WriteFile(bad, []byte(`{"cdiVersion": "0.6.0", "kind": `), 0o644)
				_ = os.WriteFile(filepath.Join(late, "good.json"), specBytes("vl.com/cls", 1), 0o644)
				err := cache.Refresh() // the first operation after the repair
				if err == nil {
					report("refresh-returned-nil-with-failing-file", "an error", nil)
				}
				if _, in := cache.GetErrors()[bad]; !in {
					report("error-entry-missing", bad, fmt.Sprint(cache.GetErrors()))
				}
				for _, q := range []string{"vl.com/cls=dev", "vk.com/cls=dev"} {
					if cache.GetDevice(q) == nil {
						report("devices", q+" resolves", fmt.Sprint(cache.ListDevices()))
					}
				}
				// the file is repaired: at the first refresh afterwards the entry is gone and nil is returned
				_ = os.WriteFile(bad, specBytes("vb.com/cls", 1), 0o644)
				time.Sleep(100 * time.Millisecond)
				if err := cache.Refresh(); err != nil {
					// the watcher may still be on its way: give it the time a query would get
					time.Sleep(500 * time.Millisecond)
					if err = cache.Refresh(); err != nil {
						report("refresh-returned-error-on-clean-dirs", nil, err.Error())
					}
				}
				if _, in := cache.GetErrors()[bad]; in {
					report("error-entry-spurious", "no entry for the repaired file", fmt.Sprint(cache.GetErrors()))
				}
				if cache.GetDevice("vb.com/cls=dev") == nil {
					report("devices", "vb.com/cls=dev resolves", fmt.Sprint(cache.ListDevices()))
				}
			})
			if pan != nil {
				col.add(Mismatch{Props: []string{"C08", "C13"}, What: "panic", Got: fmt.Sprint(pan), Note: stack})
			}
			if hung {
				col.add(Mismatch{Props: []string{"C13"}, What: "hang", Note: sc})
			}
			col.done([]byte(sc), true, 2)
		}
	}
	return col.finish(start)
}
