package main

// oracle-qname: rows of spec/QNameStrings.tla and spec/QNameParts.tla evaluated on the real
// parser entry points.  A model string is a list of symbols; it is concretised twice: the
// canonical spelling and a seeded class-preserving one (other letters, digits, non-ASCII
// runes, control bytes, a long alphanumeric filler after a letter).

import (
	"encoding/json"
	"flag"
	"fmt"
	"math/rand"
	"os"
	"strings"
	"time"

	"tags.cncf.io/container-device-interface/pkg/parser"
)

func init() { register("oracle-qname", oracleQNameMain) }

type mParse struct {
	OK bool     `json:"ok"`
	V  []string `json:"v"`
	C  []string `json:"c"`
	N  []string `json:"n"`
}

type mQRow struct {
	S     []string `json:"s"`
	Parse mParse   `json:"parse"`
	Split mParse   `json:"split"`
	VC    bool     `json:"vc"`
	Name  bool     `json:"name"`
}

const lowers = "abcdefghijklmnopqrstuvwxyz"
const uppers = "ABCDEFGHIJKLMNOPQRSTUVWXYZ"
const digits = "0123456789"

var multibyte = []string{"é", "ß", "日", "😀", " ", " ", "ı", "К"}
var controls = []string{"\x01", "\x00", "\x1f", "\x7f", "\t", "\n", "\r"}

func symCanon(sym string) string {
	switch sym {
	case "U":
		return "š" // U+0161: its low byte is 'a'
	case "C":
		return "\x01"
	}
	return sym
}

func symVariant(sym string, r *rand.Rand, filler bool) string {
	pick := func(s string) string { return string(s[r.Intn(len(s))]) }
	out := sym
	switch sym {
	case "a", "z":
		out = pick(lowers)
	case "A", "Z":
		out = pick(uppers)
	case "0", "9":
		out = pick(digits)
	case "U":
		out = multibyte[r.Intn(len(multibyte))]
	case "C":
		out = controls[r.Intn(len(controls))]
	}
	if filler && (sym == "a" || sym == "z" || sym == "A" || sym == "Z") {
		n := 1 + r.Intn(70)
		var b strings.Builder
		b.WriteString(out)
		for i := 0; i < n; i++ {
			b.WriteString(pick(lowers + uppers + digits))
		}
		out = b.String()
	}
	return out
}

func joinSyms(c []string, from, to int) string { return strings.Join(c[from:to], "") }

func checkQName(row mQRow, conc []string, report func(Mismatch)) {
	s := strings.Join(conc, "")
	wantV, wantC, wantN := "", "", s
	if row.Parse.OK {
		lv, lc := len(row.Parse.V), len(row.Parse.C)
		wantV, wantC, wantN = joinSyms(conc, 0, lv), joinSyms(conc, lv+1, lv+1+lc), joinSyms(conc, lv+lc+2, len(conc))
	}
	v, c, n, err := parser.ParseQualifiedName(s)
	if (err == nil) != row.Parse.OK || v != wantV || c != wantC || n != wantN {
		report(Mismatch{Props: []string{"C07"}, What: "ParseQualifiedName", Want: fmt.Sprintf("ok=%v %q %q %q", row.Parse.OK, wantV, wantC, wantN),
			Got: fmt.Sprintf("ok=%v %q %q %q", err == nil, v, c, n), Note: fmt.Sprintf("%q", s)})
	}
	if parser.IsQualifiedName(s) != row.Parse.OK {
		report(Mismatch{Props: []string{"C07"}, What: "IsQualifiedName", Want: row.Parse.OK, Got: !row.Parse.OK, Note: fmt.Sprintf("%q", s)})
	}
	if row.Parse.OK {
		if q := parser.QualifiedName(v, c, n); q != s {
			report(Mismatch{Props: []string{"C07"}, What: "QualifiedName-roundtrip", Want: s, Got: q})
		}
	}
	sv, sc, sn := "", "", s
	if row.Split.OK {
		lv, lc := len(row.Split.V), len(row.Split.C)
		sv, sc, sn = joinSyms(conc, 0, lv), joinSyms(conc, lv+1, lv+1+lc), joinSyms(conc, lv+lc+2, len(conc))
	}
	if v, c, n := parser.ParseDevice(s); v != sv || c != sc || n != sn {
		report(Mismatch{Props: []string{"C07"}, What: "ParseDevice", Want: fmt.Sprintf("%q %q %q", sv, sc, sn), Got: fmt.Sprintf("%q %q %q", v, c, n), Note: fmt.Sprintf("%q", s)})
	}
	if row.Split.OK {
		// the validators on the split parts: together they decide exactly what the parser decides
		all := parser.ValidateVendorName(sv) == nil && parser.ValidateClassName(sc) == nil && parser.ValidateDeviceName(sn) == nil
		if all != row.Parse.OK {
			report(Mismatch{Props: []string{"C07"}, What: "validators-disagree-with-parser", Want: row.Parse.OK, Got: all, Note: fmt.Sprintf("%q", s)})
		}
	}
	// the whole string as a vendor, a class and a device name candidate
	if got := parser.ValidateVendorName(s) == nil; got != row.VC {
		report(Mismatch{Props: []string{"C07"}, What: "ValidateVendorName", Want: row.VC, Got: got, Note: fmt.Sprintf("%q", s)})
	}
	if got := parser.ValidateClassName(s) == nil; got != row.VC {
		report(Mismatch{Props: []string{"C07"}, What: "ValidateClassName", Want: row.VC, Got: got, Note: fmt.Sprintf("%q", s)})
	}
	if got := parser.ValidateDeviceName(s) == nil; got != row.Name {
		report(Mismatch{Props: []string{"C07"}, What: "ValidateDeviceName", Want: row.Name, Got: got, Note: fmt.Sprintf("%q", s)})
	}
	// the verdicts do not depend on what was validated before
	if got := parser.ValidateVendorName(s) == nil; got != row.VC {
		report(Mismatch{Props: []string{"C07"}, What: "ValidateVendorName-after-ValidateDeviceName", Want: row.VC, Got: got, Note: fmt.Sprintf("%q", s)})
	}
	if got := parser.IsQualifiedName(s); got != row.Parse.OK {
		report(Mismatch{Props: []string{"C07"}, What: "IsQualifiedName-second-call", Want: row.Parse.OK, Got: got, Note: fmt.Sprintf("%q", s)})
	}
}

func oracleQNameRow(idx int, line []byte, seed int64, col *collector) {
	var row mQRow
	if err := json.Unmarshal(line, &row); err != nil {
		col.add(Mismatch{Case: idx, Step: -1, Props: []string{"TOOL"}, What: "bad-row", Note: err.Error()})
		return
	}
	r := rand.New(rand.NewSource(seed*1000003 + int64(idx)))
	variants := [][]string{make([]string, len(row.S)), make([]string, len(row.S)), make([]string, len(row.S))}
	fillAt := -1
	if len(row.S) > 0 {
		fillAt = r.Intn(len(row.S))
	}
	for i, sym := range row.S {
		variants[0][i] = symCanon(sym)
		variants[1][i] = symVariant(sym, r, false)
		variants[2][i] = symVariant(sym, r, i == fillAt)
	}
	for vi, conc := range variants {
		vi, conc := vi, conc
		pan, stack, hung := guarded(20*time.Second, func() {
			checkQName(row, conc, func(m Mismatch) {
				m.Case, m.Step, m.Row = idx, vi, json.RawMessage(line)
				col.add(m)
			})
		})
		if pan != nil {
			col.add(Mismatch{Case: idx, Step: vi, Props: []string{"C08", "C07"}, What: "panic", Got: fmt.Sprint(pan), Note: fmt.Sprintf("%q\n%s", strings.Join(conc, ""), stack), Row: json.RawMessage(line)})
		}
		if hung {
			col.add(Mismatch{Case: idx, Step: vi, Props: []string{"C08", "C07"}, What: "hang", Note: fmt.Sprintf("%q", strings.Join(conc, "")), Row: json.RawMessage(line)})
		}
	}
	if row.Parse.OK {
		col.count("accepted_rows", 1)
	}
	col.done(line, row.Split.OK || row.VC || row.Name, len(variants))
}

func oracleQNameMain(args []string) int {
	fs := flag.NewFlagSet("oracle-qname", flag.ExitOnError)
	var cf commonFlags
	addCommon(fs, &cf)
	_ = fs.Parse(args)
	start := time.Now()
	col := newCollector()
	if err := forEachCase(&cf, func(idx int, line []byte) { oracleQNameRow(idx, line, cf.seed, col) }); err != nil {
		fmt.Fprintln(os.Stderr, err)
		return 2
	}
	return col.finish(start)
}
