package main

// replay-edits: rows of spec/EditsApply.tla ([o0, host, e, ok, exp]) executed against the
// real ContainerEdits.Apply / Device.ApplyEdits / Spec.ApplyEdits, with real host device
// nodes created by mknod in a scratch directory.

import (
	"encoding/json"
	"flag"
	"fmt"
	"os"
	"path/filepath"
	"reflect"
	"sort"
	"strings"
	"syscall"
	"time"

	oci "github.com/opencontainers/runtime-spec/specs-go"
	"tags.cncf.io/container-device-interface/pkg/cdi"
	specs "tags.cncf.io/container-device-interface/specs-go"
)

func init() { register("replay-edits", replayEditsMain) }

type mDest struct {
	Abs   bool     `json:"abs"`
	Parts []string `json:"parts"`
}

func (d mDest) String() string {
	s := strings.Join(d.Parts, "/")
	if d.Abs {
		return "/" + s
	}
	return s
}

type mMount struct {
	Dest mDest  `json:"dest"`
	Src  string `json:"src"`
	Typ  string `json:"typ"`
}

type mOciDev struct {
	Path  string `json:"path"`
	Type  string `json:"type"`
	Major int64  `json:"major"`
	Minor int64  `json:"minor"`
	UID   int64  `json:"uid"`
	GID   int64  `json:"gid"`
	FMode int64  `json:"fmode"`
}

type mRule struct {
	Type   string `json:"type"`
	Major  int64  `json:"major"`
	Minor  int64  `json:"minor"`
	Access string `json:"access"`
}

type mRdt struct {
	Set  bool   `json:"set"`
	Clos string `json:"clos"`
	L3   string `json:"l3"`
}

type mEnv struct {
	N string `json:"n"`
	V string `json:"v"`
}

type mOci struct {
	Env    []mEnv              `json:"env"`
	Proc   bool                `json:"proc"`
	UID    uint32              `json:"uid"`
	GID    uint32              `json:"gid"`
	Gids   []uint32            `json:"gids"`
	Devs   []mOciDev           `json:"devs"`
	Rules  []mRule             `json:"rules"`
	Mounts []mMount            `json:"mounts"`
	Hooks  map[string][]string `json:"hooks"`
	Rdt    mRdt                `json:"rdt"`
}

// flexMap accepts TLC's rendering of an empty function ("[]") as an empty map.
type flexMap map[string]string

func (f *flexMap) UnmarshalJSON(b []byte) error {
	if len(b) > 0 && b[0] == '[' {
		*f = flexMap{}
		return nil
	}
	m := map[string]string{}
	if err := json.Unmarshal(b, &m); err != nil {
		return err
	}
	*f = m
	return nil
}

type mOciView struct {
	Env    flexMap             `json:"env"`
	Gids   []uint32            `json:"gids"`
	Devs   []mOciDev           `json:"devs"`
	Rules  []mRule             `json:"rules"`
	Mounts []mMount            `json:"mounts"`
	Hooks  map[string][]string `json:"hooks"`
	Rdt    mRdt                `json:"rdt"`
}

type mNode struct {
	Path  string `json:"path"`
	Host  string `json:"host"`
	Type  string `json:"type"`
	Major int64  `json:"major"`
	Minor int64  `json:"minor"`
	Perm  string `json:"perm"`
	UID   int64  `json:"uid"`
	GID   int64  `json:"gid"`
	FMode int64  `json:"fmode"`
}

type mHook struct {
	Stage string `json:"stage"`
	Path  string `json:"path"`
}

type mEdits struct {
	Env    []mEnv   `json:"env"`
	Nodes  []mNode  `json:"nodes"`
	Mounts []mMount `json:"mounts"`
	Hooks  []mHook  `json:"hooks"`
	Gids   []uint32 `json:"gids"`
	Rdt    mRdt     `json:"rdt"`
}

type mHostNode struct {
	K     string `json:"k"`
	Major uint32 `json:"major"`
	Minor uint32 `json:"minor"`
}

type mEditsRow struct {
	O0   mOci                 `json:"o0"`
	Host map[string]mHostNode `json:"host"`
	E    mEdits               `json:"e"`
	OK   bool                 `json:"ok"`
	Exp  mOciView             `json:"exp"`
}

// devWorld maps model path ids to real paths below a scratch root.
type devWorld struct{ root string }

func (w *devWorld) path(id string) string { return filepath.Join(w.root, "dev", id) }
func (w *devWorld) id(p string) string {
	if rel, err := filepath.Rel(filepath.Join(w.root, "dev"), p); err == nil && !strings.HasPrefix(rel, "..") {
		return rel
	}
	return "?" + p
}

func mkdev(major, minor uint32) int {
	return int(uint64(major&0xfff)<<8 | uint64(minor&0xff) | uint64(major&^0xfff)<<32 | uint64(minor&^0xff)<<12)
}

func (w *devWorld) setHost(host map[string]mHostNode) error {
	dir := filepath.Join(w.root, "dev")
	if err := os.MkdirAll(dir, 0o755); err != nil {
		return err
	}
	for id, h := range host {
		p := w.path(id)
		_ = os.Remove(p)
		var err error
		switch h.K {
		case "none":
		case "file":
			err = os.WriteFile(p, []byte("regular file\n"), 0o644)
		case "b":
			err = syscall.Mknod(p, syscall.S_IFBLK|0o600, mkdev(h.Major, h.Minor))
		case "c":
			err = syscall.Mknod(p, syscall.S_IFCHR|0o600, mkdev(h.Major, h.Minor))
		case "p":
			err = syscall.Mknod(p, syscall.S_IFIFO|0o600, 0)
		default:
			err = fmt.Errorf("unknown host node kind %q", h.K)
		}
		if err != nil {
			return fmt.Errorf("host node %s (%s): %w", id, h.K, err)
		}
	}
	return nil
}

func u32p(v int64) *uint32 {
	if v < 0 {
		return nil
	}
	u := uint32(v)
	return &u
}

func ociHook(path string) oci.Hook { return oci.Hook{Path: "/hooks/" + path} }

// buildOCI turns the abstract OCI spec into a real one; sections the model leaves empty
// are left nil so that "nil or populated" are both exercised.
func (w *devWorld) buildOCI(o mOci) *oci.Spec {
	s := &oci.Spec{Version: "1.0.2", Hostname: "keep-me", Root: &oci.Root{Path: "rootfs", Readonly: true},
		Annotations: map[string]string{"untouched": "yes"}}
	if o.Proc {
		s.Process = &oci.Process{Cwd: "/keep", Args: []string{"sleep", "1"}, NoNewPrivileges: true}
		s.Process.User.UID, s.Process.User.GID = o.UID, o.GID
		for _, e := range o.Env {
			s.Process.Env = append(s.Process.Env, e.N+"="+e.V)
		}
		s.Process.User.AdditionalGids = append([]uint32(nil), o.Gids...)
	}
	for _, m := range o.Mounts {
		s.Mounts = append(s.Mounts, oci.Mount{Destination: m.Dest.String(), Source: "/src/" + m.Src, Type: m.Typ})
	}
	for stage, hs := range o.Hooks {
		for _, h := range hs {
			if s.Hooks == nil {
				s.Hooks = &oci.Hooks{}
			}
			switch stage {
			case "prestart":
				s.Hooks.Prestart = append(s.Hooks.Prestart, ociHook(h))
			case "createRuntime":
				s.Hooks.CreateRuntime = append(s.Hooks.CreateRuntime, ociHook(h))
			case "createContainer":
				s.Hooks.CreateContainer = append(s.Hooks.CreateContainer, ociHook(h))
			case "startContainer":
				s.Hooks.StartContainer = append(s.Hooks.StartContainer, ociHook(h))
			case "poststart":
				s.Hooks.Poststart = append(s.Hooks.Poststart, ociHook(h))
			case "poststop":
				s.Hooks.Poststop = append(s.Hooks.Poststop, ociHook(h))
			}
		}
	}
	if len(o.Devs) > 0 || len(o.Rules) > 0 || o.Rdt.Set {
		s.Linux = &oci.Linux{CgroupsPath: "/keep/cgroup", Namespaces: []oci.LinuxNamespace{{Type: "pid"}}}
		for _, d := range o.Devs {
			ld := oci.LinuxDevice{Path: w.path(d.Path), Type: d.Type, Major: d.Major, Minor: d.Minor, UID: u32p(d.UID), GID: u32p(d.GID)}
			if d.FMode >= 0 {
				fm := os.FileMode(d.FMode)
				ld.FileMode = &fm
			}
			s.Linux.Devices = append(s.Linux.Devices, ld)
		}
		if len(o.Rules) > 0 {
			s.Linux.Resources = &oci.LinuxResources{}
			for _, r := range o.Rules {
				ma, mi := r.Major, r.Minor
				s.Linux.Resources.Devices = append(s.Linux.Resources.Devices, oci.LinuxDeviceCgroup{Allow: true, Type: r.Type, Major: &ma, Minor: &mi, Access: r.Access})
			}
		}
		if o.Rdt.Set {
			s.Linux.IntelRdt = &oci.LinuxIntelRdt{ClosID: o.Rdt.Clos, L3CacheSchema: o.Rdt.L3}
		}
	}
	return s
}

func (w *devWorld) buildEdits(e mEdits) *specs.ContainerEdits {
	ce := &specs.ContainerEdits{}
	for _, x := range e.Env {
		ce.Env = append(ce.Env, x.N+"="+x.V)
	}
	for _, n := range e.Nodes {
		dn := &specs.DeviceNode{Path: w.path(n.Path), Type: n.Type, Major: n.Major, Minor: n.Minor, Permissions: n.Perm, UID: u32p(n.UID), GID: u32p(n.GID)}
		if n.Host != "" {
			dn.HostPath = w.path(n.Host)
		}
		if n.FMode >= 0 {
			fm := os.FileMode(n.FMode)
			dn.FileMode = &fm
		}
		ce.DeviceNodes = append(ce.DeviceNodes, dn)
	}
	for _, m := range e.Mounts {
		ce.Mounts = append(ce.Mounts, &specs.Mount{HostPath: "/src/" + m.Src, ContainerPath: m.Dest.String(), Type: m.Typ})
	}
	for _, h := range e.Hooks {
		ce.Hooks = append(ce.Hooks, &specs.Hook{HookName: h.Stage, Path: "/hooks/" + h.Path})
	}
	ce.AdditionalGIDs = append([]uint32(nil), e.Gids...)
	if e.Rdt.Set {
		ce.IntelRdt = &specs.IntelRdt{ClosID: e.Rdt.Clos, L3CacheSchema: e.Rdt.L3}
	}
	return ce
}

type realOciView struct {
	Env      map[string]string
	EnvNames []string
	Gids     []uint32
	Devs     []mOciDev
	Rules    []string
	Mounts   []string
	Hooks    map[string][]string
	Rdt      mRdt
	Rest     string
}

func i64p(p *uint32) int64 {
	if p == nil {
		return -1
	}
	return int64(*p)
}

func hookIDs(hs []oci.Hook) []string {
	out := []string{}
	for _, h := range hs {
		out = append(out, strings.TrimPrefix(h.Path, "/hooks/"))
	}
	return out
}

// ociView projects a real OCI spec on the model's observable; Rest is a digest of
// everything the edits must not touch.
func (w *devWorld) ociView(s *oci.Spec) realOciView {
	v := realOciView{Env: map[string]string{}, Hooks: map[string][]string{}}
	if s.Process != nil {
		for _, e := range s.Process.Env {
			kv := strings.SplitN(e, "=", 2)
			val := ""
			if len(kv) == 2 {
				val = kv[1]
			}
			v.Env[kv[0]] = val
			v.EnvNames = append(v.EnvNames, kv[0])
		}
		v.Gids = append([]uint32{}, s.Process.User.AdditionalGids...)
	}
	for _, m := range s.Mounts {
		v.Mounts = append(v.Mounts, fmt.Sprintf("%s <- %s (%s)", m.Destination, strings.TrimPrefix(m.Source, "/src/"), m.Type))
	}
	if s.Hooks != nil {
		v.Hooks["prestart"] = hookIDs(s.Hooks.Prestart)
		v.Hooks["createRuntime"] = hookIDs(s.Hooks.CreateRuntime)
		v.Hooks["createContainer"] = hookIDs(s.Hooks.CreateContainer)
		v.Hooks["startContainer"] = hookIDs(s.Hooks.StartContainer)
		v.Hooks["poststart"] = hookIDs(s.Hooks.Poststart)
		v.Hooks["poststop"] = hookIDs(s.Hooks.Poststop)
	}
	if s.Linux != nil {
		for _, d := range s.Linux.Devices {
			fm := int64(-1)
			if d.FileMode != nil {
				fm = int64(*d.FileMode)
			}
			v.Devs = append(v.Devs, mOciDev{Path: w.id(d.Path), Type: d.Type, Major: d.Major, Minor: d.Minor, UID: i64p(d.UID), GID: i64p(d.GID), FMode: fm})
		}
		if s.Linux.Resources != nil {
			for _, r := range s.Linux.Resources.Devices {
				ma, mi := int64(-1), int64(-1)
				if r.Major != nil {
					ma = *r.Major
				}
				if r.Minor != nil {
					mi = *r.Minor
				}
				v.Rules = append(v.Rules, fmt.Sprintf("allow=%v %s %d:%d %s", r.Allow, r.Type, ma, mi, r.Access))
			}
		}
		if r := s.Linux.IntelRdt; r != nil {
			v.Rdt = mRdt{Set: true, Clos: r.ClosID, L3: r.L3CacheSchema}
			if r.MemBwSchema != "" || r.EnableCMT || r.EnableMBM {
				v.Rdt.L3 += "+other-fields"
			}
		}
	}
	sort.Slice(v.Devs, func(i, j int) bool { return v.Devs[i].Path < v.Devs[j].Path })
	// the rest: a copy with every editable section blanked, empty containers normalised
	var c oci.Spec
	b, _ := json.Marshal(s)
	_ = json.Unmarshal(b, &c)
	c.Mounts, c.Hooks = nil, nil
	if c.Process != nil {
		c.Process.Env, c.Process.User.AdditionalGids = nil, nil
		if reflect.DeepEqual(*c.Process, oci.Process{}) {
			c.Process = nil
		}
	}
	if c.Linux != nil {
		c.Linux.Devices, c.Linux.IntelRdt = nil, nil
		if c.Linux.Resources != nil {
			c.Linux.Resources.Devices = nil
			if reflect.DeepEqual(*c.Linux.Resources, oci.LinuxResources{}) {
				c.Linux.Resources = nil
			}
		}
		if reflect.DeepEqual(*c.Linux, oci.Linux{}) {
			c.Linux = nil
		}
	}
	rb, _ := json.Marshal(c)
	v.Rest = string(rb)
	return v
}

func u32set(a []uint32) map[uint32]bool {
	m := map[uint32]bool{}
	for _, x := range a {
		m[x] = true
	}
	return m
}

// compareOci: the model's view against the real one.  before = view of the spec before the call.
func compareOci(prop []string, want mOciView, got realOciView, before realOciView, origGids []uint32) []Mismatch {
	var out []Mismatch
	wantEnv := map[string]string{}
	for k, v := range want.Env {
		wantEnv[k] = v
	}
	if !reflect.DeepEqual(wantEnv, got.Env) {
		out = append(out, Mismatch{Props: prop, What: "env", Want: want.Env, Got: got.Env})
	}
	// GIDs: previous ones kept in place, the rest as a set, no duplicates
	if len(got.Gids) < len(origGids) || !reflect.DeepEqual(append([]uint32{}, got.Gids[:len(origGids)]...), append([]uint32{}, origGids...)) ||
		!reflect.DeepEqual(u32set(want.Gids), u32set(got.Gids)) || len(u32set(got.Gids)) != len(got.Gids) {
		out = append(out, Mismatch{Props: prop, What: "additional-gids", Want: want.Gids, Got: got.Gids})
	}
	wd := append([]mOciDev{}, want.Devs...)
	sort.Slice(wd, func(i, j int) bool { return wd[i].Path < wd[j].Path })
	if !reflect.DeepEqual(wd, append([]mOciDev{}, got.Devs...)) {
		out = append(out, Mismatch{Props: prop, What: "device-nodes", Want: wd, Got: got.Devs})
	}
	wr := []string{}
	for _, r := range want.Rules {
		wr = append(wr, fmt.Sprintf("allow=true %s %d:%d %s", r.Type, r.Major, r.Minor, r.Access))
	}
	if !reflect.DeepEqual(wr, append([]string{}, got.Rules...)) {
		out = append(out, Mismatch{Props: prop, What: "cgroup-rules", Want: wr, Got: got.Rules})
	}
	wm := []string{}
	for _, m := range want.Mounts {
		wm = append(wm, fmt.Sprintf("%s <- %s (%s)", m.Dest.String(), m.Src, m.Typ))
	}
	if !reflect.DeepEqual(wm, append([]string{}, got.Mounts...)) {
		out = append(out, Mismatch{Props: prop, What: "mounts", Want: wm, Got: got.Mounts})
	}
	for _, st := range []string{"prestart", "createRuntime", "createContainer", "startContainer", "poststart", "poststop"} {
		if !reflect.DeepEqual(append([]string{}, want.Hooks[st]...), append([]string{}, got.Hooks[st]...)) {
			out = append(out, Mismatch{Props: prop, What: "hooks", Want: want.Hooks, Got: got.Hooks})
			break
		}
	}
	if want.Rdt != got.Rdt {
		out = append(out, Mismatch{Props: prop, What: "intel-rdt", Want: want.Rdt, Got: got.Rdt})
	}
	if before.Rest != got.Rest {
		out = append(out, Mismatch{Props: prop, What: "something-else-changed", Want: before.Rest, Got: got.Rest})
	}
	return out
}

const editsKind = "v1.com/cls"

// viaCache loads the edits through a Spec file and returns the appliers the API offers.
func viaCache(w *devWorld, ce *specs.ContainerEdits, specLevel bool) (func(*oci.Spec) error, func(), error) {
	dir := filepath.Join(w.root, "cdi")
	_ = os.RemoveAll(dir)
	if err := os.MkdirAll(dir, 0o755); err != nil {
		return nil, nil, err
	}
	raw := &specs.Spec{Version: "0.7.0", Kind: editsKind}
	if specLevel {
		raw.ContainerEdits = *ce
		raw.Devices = []specs.Device{{Name: "d", ContainerEdits: specs.ContainerEdits{Env: []string{"UNUSED=1"}}}}
	} else {
		raw.Devices = []specs.Device{{Name: "d", ContainerEdits: *ce}}
	}
	b, err := json.Marshal(raw)
	if err != nil {
		return nil, nil, err
	}
	if err := os.WriteFile(filepath.Join(dir, "e.json"), b, 0o644); err != nil {
		return nil, nil, err
	}
	cache, _ := cdi.NewCache(cdi.WithSpecDirs(dir), cdi.WithAutoRefresh(false))
	dev := cache.GetDevice(editsKind + "=d")
	if dev == nil {
		return nil, nil, fmt.Errorf("edits not loadable through a Spec file: %v", cache.GetErrors())
	}
	if specLevel {
		return dev.GetSpec().ApplyEdits, func() {}, nil
	}
	return dev.ApplyEdits, func() {}, nil
}

func isEmptyEdits(e mEdits) bool {
	return len(e.Env)+len(e.Nodes)+len(e.Mounts)+len(e.Hooks)+len(e.Gids) == 0 && !e.Rdt.Set
}

func replayEditsRow(idx int, line []byte, seed int64, col *collector) {
	var row mEditsRow
	if err := json.Unmarshal(line, &row); err != nil {
		col.add(Mismatch{Case: idx, Step: -1, Props: []string{"TOOL"}, What: "bad-row", Note: err.Error()})
		return
	}
	w := &devWorld{root: mkScratch("edits")}
	defer os.RemoveAll(w.root)
	report := func(ms ...Mismatch) {
		for _, m := range ms {
			m.Case, m.Row = idx, json.RawMessage(line)
			col.add(m)
		}
	}
	if err := w.setHost(row.Host); err != nil {
		report(Mismatch{Props: []string{"TOOL"}, What: "materialise", Note: err.Error()})
		return
	}
	routes := []string{"apply"}
	switch (seed + int64(idx)) % 4 {
	case 0:
		if !isEmptyEdits(row.E) {
			routes = append(routes, "device")
		}
	case 1:
		routes = append(routes, "spec")
	}
	pan, stack, hung := guarded(60*time.Second, func() {
		for ri, route := range routes {
			spec := w.buildOCI(row.O0)
			before := w.ociView(spec)
			ce := w.buildEdits(row.E)
			var apply func(*oci.Spec) error
			switch route {
			case "apply":
				apply = (&cdi.ContainerEdits{ContainerEdits: ce}).Apply
			default:
				a, _, err := viaCache(w, ce, route == "spec")
				if err != nil {
					report(Mismatch{Step: ri, Props: []string{"C03", "C05"}, What: "valid-edits-not-loadable", Note: err.Error()})
					continue
				}
				apply = a
			}
			ceBefore := jsonOf(ce)
			err := apply(spec)
			if route == "apply" && jsonOf(ce) != ceBefore {
				report(Mismatch{Step: ri, Props: []string{"C14"}, What: "apply-modified-the-edits", Want: ceBefore, Got: jsonOf(ce), Note: route})
			}
			if !row.OK {
				if err == nil {
					report(Mismatch{Step: ri, Props: []string{"C03"}, What: "no-error-for-unusable-host-node", Want: "error", Got: "nil", Note: route})
				}
				continue
			}
			if err != nil {
				report(Mismatch{Step: ri, Props: []string{"C03"}, What: "apply-failed", Want: "success", Got: err.Error(), Note: route})
				continue
			}
			ms := compareOci([]string{"C03"}, row.Exp, w.ociView(spec), before, row.O0.Gids)
			for i := range ms {
				ms[i].Step, ms[i].Note = ri, route
			}
			report(ms...)
		}
	})
	if pan != nil {
		report(Mismatch{Step: -1, Props: []string{"C08", "C03"}, What: "panic", Got: fmt.Sprint(pan), Note: stack})
	}
	if hung {
		report(Mismatch{Step: -1, Props: []string{"C08", "C03"}, What: "hang"})
	}
	col.done(line, !isEmptyEdits(row.E), len(routes))
}

func replayEditsMain(args []string) int {
	fs := flag.NewFlagSet("replay-edits", flag.ExitOnError)
	var cf commonFlags
	addCommon(fs, &cf)
	_ = fs.Parse(args)
	start := time.Now()
	col := newCollector()
	if err := forEachCase(&cf, func(idx int, line []byte) { replayEditsRow(idx, line, cf.seed, col) }); err != nil {
		fmt.Fprintln(os.Stderr, err)
		return 2
	}
	return col.finish(start)
}
