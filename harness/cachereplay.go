package main

// replay-cache: behaviours of spec/CacheSeq.tla executed against the real cdi.Cache.
//
// Abstraction function (documented in DESIGN.md "ViewOf"): a model directory id D is the
// path <root>/D/d; a content [k, kind, ds, v] is a Spec file of kind KindName[kind] whose
// devices ds each carry env DEV=<d>, V=<v>; the winner of a name is read back through
// GetDevice(q).GetSpec().GetPath()/GetPriority() and the V= entry of its edits.

import (
	"encoding/json"
	"flag"
	"fmt"
	"os"
	"path/filepath"
	"reflect"
	"sort"
	"strings"
	"time"

	oci "github.com/opencontainers/runtime-spec/specs-go"
	"tags.cncf.io/container-device-interface/pkg/cdi"
	"tags.cncf.io/container-device-interface/pkg/parser"
	specs "tags.cncf.io/container-device-interface/specs-go"
)

func init() { register("replay-cache", replayCacheMain) }

var kindName = map[string]string{"k1": "v1.com/cls", "k2": "v2.org/a.b", "k3": "v1.com/a.b"}

func kindOf(vendor, class string) string {
	for k, v := range kindName {
		if v == vendor+"/"+class {
			return k
		}
	}
	return "?" + vendor + "/" + class
}

type mContent struct {
	K    string   `json:"k"`
	Kind string   `json:"kind"`
	Ds   []string `json:"ds"`
	V    int      `json:"v"`
}

type mDir struct {
	St   string              `json:"st"`
	Ents map[string]mContent `json:"ents"`
}

type mTok struct {
	T    string `json:"t"`
	Kind string `json:"kind"`
	D    string `json:"d"`
}

type mDev struct {
	Kind string `json:"kind"`
	D    string `json:"d"`
	P    int    `json:"p"`
	Dir  string `json:"dir"`
	F    string `json:"f"`
	V    int    `json:"v"`
}

type mSpecRef struct {
	Kind string `json:"kind"`
	P    int    `json:"p"`
	Dir  string `json:"dir"`
	F    string `json:"f"`
}

type mView struct {
	Devs    []mDev     `json:"devs"`
	Kinds   []string   `json:"kinds"`
	Specs   []mSpecRef `json:"specs"`
	ErrMust [][]string `json:"errmust"`
	ErrMay  [][]string `json:"errmay"`
	RErr    string     `json:"rerr"`
}

type mStep struct {
	Op   string          `json:"op"`
	D    string          `json:"d"`
	N    string          `json:"n"`
	C    mContent        `json:"c"`
	St   string          `json:"st"`
	Req  []mTok          `json:"req"`
	Res  json.RawMessage `json:"res"`
	View mView           `json:"view"`
}

type mRow struct {
	Dirs []string        `json:"dirs"`
	Fs0  map[string]mDir `json:"fs0"`
	Hist []mStep         `json:"hist"`
}

func rawSpecOf(c mContent) *specs.Spec {
	s := &specs.Spec{Version: "0.6.0", Kind: kindName[c.Kind]}
	s.ContainerEdits.Env = []string{fmt.Sprintf("SPECV=%d", c.V)}
	ds := append([]string(nil), c.Ds...)
	sort.Strings(ds)
	for _, d := range ds {
		s.Devices = append(s.Devices, specs.Device{Name: d, ContainerEdits: specs.ContainerEdits{
			Env:   []string{"DEV=" + d, fmt.Sprintf("V=%d", c.V), "KIND=" + c.Kind},
			Hooks: []*specs.Hook{{HookName: "createContainer", Path: "/bin/hook-" + d}}}})
	}
	return s
}

func contentBytes(c mContent, name string) []byte {
	isJSON := strings.HasSuffix(strings.ToLower(name), ".json") || filepath.Ext(name) == ""
	switch c.K {
	case "ok":
		s := rawSpecOf(c)
		b, _ := json.Marshal(s)
		if !isJSON {
			var buf strings.Builder
			buf.WriteString("---\ncdiVersion: \"0.6.0\"\nkind: \"" + s.Kind + "\"\ncontainerEdits:\n  env:\n")
			for _, e := range s.ContainerEdits.Env {
				buf.WriteString("  - \"" + e + "\"\n")
			}
			buf.WriteString("devices:\n")
			for _, d := range s.Devices {
				buf.WriteString("- name: \"" + d.Name + "\"\n  containerEdits:\n    env:\n")
				for _, e := range d.ContainerEdits.Env {
					buf.WriteString("    - \"" + e + "\"\n")
				}
				buf.WriteString("    hooks:\n")
				for _, h := range d.ContainerEdits.Hooks {
					buf.WriteString("    - hookName: " + h.HookName + "\n      path: " + h.Path + "\n")
				}
			}
			return []byte(buf.String())
		}
		return b
	case "syntax":
		if isJSON {
			return []byte(`{"cdiVersion": "0.6.0", "kind": `)
		}
		return []byte("cdiVersion: \"0.6.0\"\nkind: [unterminated\n")
	case "semantic":
		if isJSON {
			return []byte(`{"cdiVersion":"0.6.0","kind":"v1.com/cls","devices":[]}`)
		}
		return []byte("cdiVersion: \"0.6.0\"\nkind: v1.com/cls\ndevices: []\n")
	case "empty":
		return []byte{}
	case "blank":
		return []byte(" \n\t\n")
	case "nodoc":
		if isJSON {
			return []byte("# this Spec is switched off\n# {\"cdiVersion\": \"0.6.0\"}\n")
		}
		return []byte("---\n")
	case "nulldoc":
		if isJSON {
			return []byte("null\n")
		}
		return []byte("--- ~\n")
	case "noperm":
		// a perfectly valid Spec nobody may read: if it is read after all, its devices show up
		cc := mContent{K: "ok", Kind: "k1", Ds: []string{"x", "y"}, V: 7}
		return contentBytes(cc, name)
	}
	return nil
}

type cacheWorld struct {
	root  string
	paths map[string]string // dir id -> path
}

func (w *cacheWorld) dirPath(id string) string { return filepath.Join(w.root, id, "d") }

func (w *cacheWorld) linkTarget(dir, name string) string {
	return filepath.Join(w.root, "targets", dir+"__"+name)
}

func isSymlink(p string) bool {
	st, err := os.Lstat(p)
	return err == nil && st.Mode()&os.ModeSymlink != 0
}

func (w *cacheWorld) putEntry(dir, name string, c mContent) error {
	p := filepath.Join(w.dirPath(dir), name)
	_ = os.MkdirAll(filepath.Join(w.root, "targets"), 0o755)
	switch {
	case c.K == "dangling" || c.K == "linkok":
		// a link whose target appears or disappears: the link itself is left alone when it
		// is already there (a repair of a dangling link does not touch the directory)
		t := w.linkTarget(dir, name)
		if l, err := os.Readlink(p); err != nil || l != t {
			_ = os.RemoveAll(p)
			if err := os.Symlink(t, p); err != nil {
				return err
			}
		}
		if c.K == "dangling" {
			_ = os.Remove(t)
			return nil
		}
		cc := c
		cc.K = "ok"
		return os.WriteFile(t, contentBytes(cc, name), 0o644)
	}
	_ = os.RemoveAll(p)
	switch {
	case c.K == "none":
		return nil
	case c.K == "linkdir":
		t := filepath.Join(w.root, "targets", "adir")
		if err := os.MkdirAll(t, 0o755); err != nil {
			return err
		}
		_ = os.WriteFile(filepath.Join(t, "inner.json"), contentBytes(mContent{K: "ok", Kind: "k1", Ds: []string{"x", "y"}, V: 9}, "inner.json"), 0o644)
		return os.Symlink(t, p)
	case c.K == "dirent":
		if err := os.Mkdir(p, 0o755); err != nil {
			return err
		}
		return os.WriteFile(filepath.Join(p, "inner.json"), contentBytes(mContent{K: "ok", Kind: "k1", Ds: []string{"x", "y"}, V: 9}, "inner.json"), 0o644)
	case name == "sub":
		if err := os.Mkdir(p, 0o755); err != nil {
			return err
		}
		return os.WriteFile(filepath.Join(p, "s.json"), contentBytes(c, "s.json"), 0o644)
	case c.K == "noperm":
		if err := os.WriteFile(p, contentBytes(c, name), 0o644); err != nil {
			return err
		}
		return os.Chmod(p, 0)
	default:
		return os.WriteFile(p, contentBytes(c, name), 0o644)
	}
}

func (w *cacheWorld) setDir(id string, d mDir) error {
	top := filepath.Join(w.root, id)
	_ = os.Chmod(w.dirPath(id), 0o755) // an unreadable directory cannot be emptied
	_ = os.RemoveAll(top)
	switch d.St {
	case "missing":
		return os.MkdirAll(top, 0o755)
	case "badanc":
		return os.WriteFile(top, []byte("not a directory\n"), 0o644)
	case "notdir":
		if err := os.MkdirAll(top, 0o755); err != nil {
			return err
		}
		return os.WriteFile(w.dirPath(id), []byte("a file where a directory is configured\n"), 0o644)
	case "dir", "noperm":
		if d.St == "noperm" {
			if os.Geteuid() == 0 {
				return fmt.Errorf("unreadable directories need an unprivileged process (VERIF_UID)")
			}
			defer func() { _ = os.Chmod(w.dirPath(id), 0) }()
		}
		if err := os.MkdirAll(w.dirPath(id), 0o755); err != nil {
			return err
		}
		names := make([]string, 0, len(d.Ents))
		for n := range d.Ents {
			names = append(names, n)
		}
		sort.Strings(names)
		for _, n := range names {
			if err := w.putEntry(id, n, d.Ents[n]); err != nil {
				return err
			}
		}
		return nil
	}
	return fmt.Errorf("unknown dir state %q", d.St)
}

// locate maps a real path back to (dir id, entry name).
func (w *cacheWorld) locate(p string) (string, string, bool) {
	rel, err := filepath.Rel(w.root, p)
	if err != nil {
		return "", "", false
	}
	parts := strings.Split(rel, string(os.PathSeparator))
	if len(parts) == 3 && parts[1] == "d" {
		return parts[0], parts[2], true
	}
	if len(parts) == 2 && parts[1] == "d" {
		return parts[0], "", true
	}
	return "", "", false
}

type realView struct {
	Devs     []mDev
	Vendors  []string
	Classes  []string
	Specs    []mSpecRef
	ErrFiles [][]string // (dir id, name) keys of GetErrors that are files
	ErrOther []string   // other keys (directories, unknown paths)
	Problems []string   // internal inconsistencies of the API (GetDevice vs ListDevices, ...)
}

func envVal(env []string, key string) string {
	for _, e := range env {
		if strings.HasPrefix(e, key+"=") {
			return e[len(key)+1:]
		}
	}
	return ""
}

func atoi(s string) int {
	n := 0
	fmt.Sscanf(s, "%d", &n)
	return n
}

func observe(w *cacheWorld, c *cdi.Cache) realView {
	var rv realView
	listed := map[string]bool{}
	for _, q := range c.ListDevices() {
		listed[q] = true
		dev := c.GetDevice(q)
		if dev == nil {
			rv.Problems = append(rv.Problems, "listed device does not resolve: "+q)
			continue
		}
		vendor, class, name, err := parser.ParseQualifiedName(q)
		if err != nil {
			rv.Problems = append(rv.Problems, "listed name is not qualified: "+q)
			continue
		}
		sp := dev.GetSpec()
		dir, f, ok := w.locate(sp.GetPath())
		if !ok {
			rv.Problems = append(rv.Problems, "device from a file outside the configured directories: "+sp.GetPath())
		}
		if dev.GetQualifiedName() != q || dev.Name != name || sp.GetVendor() != vendor || sp.GetClass() != class {
			rv.Problems = append(rv.Problems, "device identity mismatch for "+q)
		}
		if envVal(dev.ContainerEdits.Env, "DEV") != name {
			rv.Problems = append(rv.Problems, "device edits belong to another device: "+q)
		}
		rv.Devs = append(rv.Devs, mDev{Kind: kindOf(vendor, class), D: name, P: sp.GetPriority(), Dir: dir, F: f,
			V: atoi(envVal(dev.ContainerEdits.Env, "V"))})
	}
	// names of the universe that are not listed must not resolve
	for k, kn := range kindName {
		_ = k
		for _, d := range []string{"x", "y", "z"} {
			q := kn + "=" + d
			if !listed[q] && c.GetDevice(q) != nil {
				rv.Problems = append(rv.Problems, "unlisted device resolves: "+q)
			}
		}
	}
	rv.Vendors = c.ListVendors()
	rv.Classes = c.ListClasses()
	vendors := map[string]struct{}{"v1.com": {}, "v2.org": {}}
	for _, v := range rv.Vendors {
		vendors[v] = struct{}{}
	}
	errs := c.GetErrors()
	for _, v := range sortedKeys(vendors) {
		for _, sp := range c.GetVendorSpecs(v) {
			dir, f, ok := w.locate(sp.GetPath())
			if !ok {
				rv.Problems = append(rv.Problems, "Spec outside the configured directories: "+sp.GetPath())
			}
			if sp.GetVendor() != v {
				rv.Problems = append(rv.Problems, "GetVendorSpecs returned a Spec of another vendor")
			}
			rv.Specs = append(rv.Specs, mSpecRef{Kind: kindOf(sp.GetVendor(), sp.GetClass()), P: sp.GetPriority(), Dir: dir, F: f})
			_, inErr := errs[sp.GetPath()]
			if se := c.GetSpecErrors(sp); (len(se) > 0) != inErr {
				rv.Problems = append(rv.Problems, "GetSpecErrors disagrees with GetErrors for "+sp.GetPath())
			}
		}
	}
	for p := range errs {
		dir, f, ok := w.locate(p)
		if ok && f != "" {
			rv.ErrFiles = append(rv.ErrFiles, []string{dir, f})
		} else {
			rv.ErrOther = append(rv.ErrOther, p)
		}
	}
	sort.Slice(rv.Devs, func(i, j int) bool { return jsonOf(rv.Devs[i]) < jsonOf(rv.Devs[j]) })
	sort.Slice(rv.Specs, func(i, j int) bool { return jsonOf(rv.Specs[i]) < jsonOf(rv.Specs[j]) })
	sort.Slice(rv.ErrFiles, func(i, j int) bool { return jsonOf(rv.ErrFiles[i]) < jsonOf(rv.ErrFiles[j]) })
	sort.Strings(rv.ErrOther)
	return rv
}

func pairSet(ps [][]string) map[string]struct{} {
	m := map[string]struct{}{}
	for _, p := range ps {
		m[strings.Join(p, "/")] = struct{}{}
	}
	return m
}

// hasFault: the population contains a failing file or an unscannable configured directory.
func hasFault(dirs []string, fs map[string]mDir) bool {
	for _, id := range dirs {
		d := fs[id]
		if d.St != "dir" {
			return true
		}
		for n, c := range d.Ents {
			if c.K != "none" && c.K != "ok" && c.K != "linkok" && c.K != "dirent" && (strings.HasSuffix(n, ".json") || strings.HasSuffix(n, ".yaml")) {
				return true
			}
		}
	}
	return false
}

// compareView returns the disagreements between the model's view and the real one.
func compareView(want mView, got realView, faulty bool, afterAPIWrite bool) []Mismatch {
	var out []Mismatch
	idxProps := []string{"C01"}
	if faulty {
		idxProps = append(idxProps, "C13")
	}
	if afterAPIWrite {
		idxProps = append(idxProps, "C16")
	}
	wd := append([]mDev(nil), want.Devs...)
	sort.Slice(wd, func(i, j int) bool { return jsonOf(wd[i]) < jsonOf(wd[j]) })
	if !reflect.DeepEqual(wd, got.Devs) && !(len(wd) == 0 && len(got.Devs) == 0) {
		out = append(out, Mismatch{Props: idxProps, What: "devices", Want: wd, Got: got.Devs})
	}
	ws := append([]mSpecRef(nil), want.Specs...)
	sort.Slice(ws, func(i, j int) bool { return jsonOf(ws[i]) < jsonOf(ws[j]) })
	if !reflect.DeepEqual(ws, got.Specs) && !(len(ws) == 0 && len(got.Specs) == 0) {
		out = append(out, Mismatch{Props: idxProps, What: "specs", Want: ws, Got: got.Specs})
	}
	wv, wc := map[string]struct{}{}, map[string]struct{}{}
	for _, k := range want.Kinds {
		parts := strings.SplitN(kindName[k], "/", 2)
		wv[parts[0]] = struct{}{}
		wc[parts[1]] = struct{}{}
	}
	if gv := got.Vendors; !reflect.DeepEqual(sortedKeys(wv), append([]string{}, gv...)) {
		out = append(out, Mismatch{Props: idxProps, What: "vendors", Want: sortedKeys(wv), Got: gv})
	}
	if gc := got.Classes; !reflect.DeepEqual(sortedKeys(wc), append([]string{}, gc...)) {
		out = append(out, Mismatch{Props: idxProps, What: "classes", Want: sortedKeys(wc), Got: gc})
	}
	if len(got.Problems) > 0 {
		out = append(out, Mismatch{Props: idxProps, What: "api-inconsistent", Got: got.Problems})
	}
	must, may, have := pairSet(want.ErrMust), pairSet(want.ErrMay), pairSet(got.ErrFiles)
	for k := range must {
		if _, ok := have[k]; !ok {
			out = append(out, Mismatch{Props: []string{"C13"}, What: "error-entry-missing", Want: k, Got: got.ErrFiles})
		}
	}
	for k := range have {
		if _, ok := may[k]; !ok {
			out = append(out, Mismatch{Props: []string{"C13"}, What: "error-entry-spurious", Want: want.ErrMay, Got: k})
		}
	}
	return out
}

func tokName(t mTok) string {
	switch t.T {
	case "q":
		return kindName[t.Kind] + "=" + t.D
	case "pad":
		if t.D == "x" {
			return " " + kindName[t.Kind] + "=" + t.D
		}
		return kindName[t.Kind] + "=" + t.D + "\n"
	case "unk":
		return "nosuch.com/cls=x"
	case "bad":
		return "x"
	case "empty":
		return ""
	}
	return "??"
}

func baseOCI() *oci.Spec {
	uid := uint32(0)
	_ = uid
	return &oci.Spec{
		Version:  "1.0.2",
		Hostname: "keep",
		Process:  &oci.Process{Env: []string{"ORIG=1", "V=orig"}, Cwd: "/"},
		Mounts:   []oci.Mount{{Destination: "/m/x", Source: "/h", Type: "bind"}},
		Linux:    &oci.Linux{Devices: []oci.LinuxDevice{{Path: "/dev/orig", Type: "c", Major: 1, Minor: 2}}},
	}
}

func replayCacheRow(idx int, line []byte, seed int64, col *collector) {
	var row mRow
	if err := json.Unmarshal(line, &row); err != nil {
		col.add(Mismatch{Case: idx, Step: -1, Props: []string{"TOOL"}, What: "bad-row", Note: err.Error()})
		return
	}
	w := &cacheWorld{root: mkScratch("cache")}
	defer func() {
		for id := range row.Fs0 {
			_ = os.Chmod(w.dirPath(id), 0o755)
		}
		_ = os.RemoveAll(w.root)
	}()
	ids := make([]string, 0, len(row.Fs0))
	for id := range row.Fs0 {
		ids = append(ids, id)
	}
	sort.Strings(ids)
	for _, id := range ids {
		if err := w.setDir(id, row.Fs0[id]); err != nil {
			col.add(Mismatch{Case: idx, Step: -1, Props: []string{"TOOL"}, What: "materialise", Note: err.Error()})
			return
		}
	}
	fs := map[string]mDir{}
	for id, d := range row.Fs0 {
		ents := map[string]mContent{}
		for n, c := range d.Ents {
			ents[n] = c
		}
		fs[id] = mDir{St: d.St, Ents: ents}
	}
	paths := make([]string, len(row.Dirs))
	for i, id := range row.Dirs {
		paths[i] = w.dirPath(id)
	}
	report := func(step int, ms ...Mismatch) {
		for _, m := range ms {
			m.Case, m.Step, m.Row = idx, step, json.RawMessage(line)
			col.add(m)
		}
	}
	var cache *cdi.Cache
	nontrivial := false
	steps := 0
	lastAPIWrite := false
	pan, stack, hung := guarded(60*time.Second, func() {
		for si, st := range row.Hist {
			steps++
			switch st.Op {
			case "new":
				cache, _ = cdi.NewCache(cdi.WithSpecDirs(paths...), cdi.WithAutoRefresh(false))
				if got := cache.GetSpecDirectories(); !reflect.DeepEqual(append([]string{}, got...), append([]string{}, paths...)) {
					report(si, Mismatch{Props: []string{"C01", "C20"}, What: "spec-directories", Want: paths, Got: got})
				}
				report(si, compareView(st.View, observe(w, cache), hasFault(row.Dirs, fs), false)...)
				if len(st.View.Devs) > 0 || len(st.View.ErrMust) > 0 {
					nontrivial = true
				}
			case "write":
				if err := w.putEntry(st.D, st.N, st.C); err != nil {
					report(si, Mismatch{Props: []string{"TOOL"}, What: "materialise", Note: err.Error()})
				}
				fs[st.D].Ents[st.N] = st.C
			case "remove":
				_ = os.RemoveAll(filepath.Join(w.dirPath(st.D), st.N))
				fs[st.D].Ents[st.N] = mContent{K: "none"}
			case "chmod":
				mode := os.FileMode(0o755)
				if st.St == "noperm" {
					mode = 0
				}
				if err := os.Chmod(w.dirPath(st.D), mode); err != nil || os.Geteuid() == 0 {
					report(si, Mismatch{Props: []string{"TOOL"}, What: "materialise", Note: fmt.Sprint("chmod as uid ", os.Geteuid(), ": ", err)})
				}
				d0 := fs[st.D]
				d0.St = st.St
				fs[st.D] = d0
			case "dirstate":
				nd := mDir{St: st.St, Ents: map[string]mContent{}}
				if err := w.setDir(st.D, nd); err != nil {
					report(si, Mismatch{Props: []string{"TOOL"}, What: "materialise", Note: err.Error()})
				}
				fs[st.D] = nd
			case "refresh":
				err := cache.Refresh()
				faulty := hasFault(row.Dirs, fs)
				report(si, compareView(st.View, observe(w, cache), faulty, lastAPIWrite)...)
				switch st.View.RErr {
				case "err":
					if err == nil {
						report(si, Mismatch{Props: []string{"C13"}, What: "refresh-returned-nil-with-failing-file", Want: "error", Got: nil})
					}
				case "nil":
					if err != nil {
						report(si, Mismatch{Props: []string{"C13"}, What: "refresh-returned-error-on-clean-dirs", Want: nil, Got: err.Error()})
					}
				}
				if len(st.View.Devs) > 0 || len(st.View.ErrMust) > 0 {
					nontrivial = true
				}
			case "apiwrite":
				before := treeOf(w.root)
				name := st.N
				if strings.HasSuffix(name, ".yaml") && (seed+int64(idx)+int64(si))%2 == 0 {
					name = strings.TrimSuffix(name, ".yaml") // extension-less: YAML by default
				}
				raw := rawSpecOf(st.C)
				err := cache.WriteSpec(raw, name)
				after := treeOf(w.root)
				var res []string
				_ = json.Unmarshal(st.Res, &res)
				wantOK := len(res) == 1 && res[0] == "ok"
				if wantOK != (err == nil) {
					report(si, Mismatch{Props: []string{"C16"}, What: "writespec-result", Want: res, Got: fmt.Sprint(err)})
				}
				added, removed, changed := diffTrees(before, after)
				target := filepath.Join(st.D, "d", st.N)
				allowed := map[string]bool{target: true, filepath.Join(st.D, "d"): true}
				for _, p := range append(append(added, removed...), changed...) {
					if !allowed[p] || (err != nil) {
						report(si, Mismatch{Props: []string{"C16"}, What: "writespec-touched-other-path", Want: target, Got: p})
					}
				}
				if err == nil {
					if _, ok := after[target]; !ok {
						report(si, Mismatch{Props: []string{"C16"}, What: "writespec-target-missing", Want: target, Got: added})
					} else if sp, rerr := cdi.ReadSpec(filepath.Join(w.root, target), 0); rerr != nil || jsonOf(sp.Spec) != jsonOf(raw) {
						report(si, Mismatch{Props: []string{"C16", "C09"}, What: "writespec-content", Want: jsonOf(raw), Got: fmt.Sprint(rerr)})
					}
					nd := fs[st.D]
					if nd.St != "dir" {
						nd = mDir{St: "dir", Ents: map[string]mContent{}}
					}
					nd.Ents[st.N] = st.C
					fs[st.D] = nd
				}
			case "apiremove":
				before := treeOf(w.root)
				name := st.N
				if strings.HasSuffix(name, ".yaml") && (seed+int64(idx)+int64(si))%2 == 1 {
					name = strings.TrimSuffix(name, ".yaml")
				}
				err := cache.RemoveSpec(name)
				after := treeOf(w.root)
				var res []string
				_ = json.Unmarshal(st.Res, &res)
				if len(res) == 1 && res[0] == "ok" && err != nil {
					report(si, Mismatch{Props: []string{"C16"}, What: "removespec-result", Want: res, Got: err.Error()})
				}
				added, removed, changed := diffTrees(before, after)
				target := filepath.Join(st.D, "d", st.N)
				for _, p := range append(append(added, removed...), changed...) {
					if p != target {
						report(si, Mismatch{Props: []string{"C16"}, What: "removespec-touched-other-path", Want: target, Got: p})
					}
				}
				if _, still := after[target]; still && err == nil {
					report(si, Mismatch{Props: []string{"C16"}, What: "removespec-left-file", Want: "removed", Got: target})
				}
				if d, ok := fs[st.D]; ok && d.St == "dir" {
					d.Ents[st.N] = mContent{K: "none"}
				}
			case "inject":
				names := make([]string, len(st.Req))
				for i, t := range st.Req {
					names[i] = tokName(t)
				}
				var wantMiss []mTok
				_ = json.Unmarshal(st.Res, &wantMiss)
				want := make([]string, len(wantMiss))
				for i, t := range wantMiss {
					want[i] = tokName(t)
				}
				spec := baseOCI()
				if (seed+int64(idx)+int64(si))%3 == 0 {
					spec = &oci.Spec{}
				}
				before := jsonOf(spec)
				unresolved, err := cache.InjectDevices(spec, names...)
				if len(want) > 0 {
					nontrivial = true
					if err == nil {
						report(si, Mismatch{Props: []string{"C04"}, What: "inject-no-error-for-unresolvable", Want: want, Got: unresolved})
					}
					if !reflect.DeepEqual(append([]string{}, unresolved...), want) {
						report(si, Mismatch{Props: []string{"C04"}, What: "inject-unresolved-list", Want: want, Got: unresolved})
					}
					if after := jsonOf(spec); after != before {
						report(si, Mismatch{Props: []string{"C04"}, What: "inject-modified-spec-on-failure", Want: before, Got: after})
					}
				} else {
					if err != nil || len(unresolved) != 0 {
						report(si, Mismatch{Props: []string{"C04", "C02"}, What: "inject-failed-for-resolvable", Want: "success", Got: fmt.Sprint(unresolved, err)})
					}
				}
				// nil OCI spec: refused, every requested name returned
				u2, err2 := cache.InjectDevices(nil, names...)
				if err2 == nil || !reflect.DeepEqual(append([]string{}, u2...), append([]string{}, names...)) {
					report(si, Mismatch{Props: []string{"C04"}, What: "inject-nil-spec", Want: names, Got: fmt.Sprint(u2, err2)})
				}
			default:
				report(si, Mismatch{Props: []string{"TOOL"}, What: "unknown-op", Note: st.Op})
			}
			lastAPIWrite = st.Op == "apiwrite"
		}
	})
	if pan != nil {
		report(-1, Mismatch{Props: []string{"C08", "C01", "C13", "C04", "C16"}, What: "panic", Got: fmt.Sprint(pan), Note: stack})
	}
	if hung {
		report(-1, Mismatch{Props: []string{"C08", "C12"}, What: "hang"})
	}
	col.done(line, nontrivial, steps)
}

func replayCacheMain(args []string) int {
	fs := flag.NewFlagSet("replay-cache", flag.ExitOnError)
	var cf commonFlags
	addCommon(fs, &cf)
	_ = fs.Parse(args)
	start := time.Now()
	col := newCollector()
	if err := forEachCase(&cf, func(idx int, line []byte) { replayCacheRow(idx, line, cf.seed, col) }); err != nil {
		fmt.Fprintln(os.Stderr, err)
		return 2
	}
	return col.finish(start)
}
