package main

// overflow: C11 when the kernel's inotify queue overflows (IN_Q_OVERFLOW).  The schedule is the one
// TLC gives for spec/CacheAuto.tla with a bounded kernel queue and FIX_OVERFLOW = FALSE, made
// concrete with the gates of replay-auto:
//   1. a Spec file is moved in: one event; the watcher goroutine takes it and waits for the mutex
//      (gate), fsnotify's reader is blocked behind it, nobody reads the kernel queue
//   2. a burst of events the cache ignores (a temporary file coming and going) fills the queue
//   3. the goroutine is let in: watches updated, directories rescanned; it is parked before the unlock
//   4. the Spec file is replaced: the kernel drops the event, its queue is full
//   5. the goroutine goes on: only ignored events and the overflow notice are left
// Queries have to show the replaced file all the same.

import (
	"flag"
	"fmt"
	"os"
	"path/filepath"
	"strconv"
	"strings"
	"sync/atomic"
	"time"

	"tags.cncf.io/container-device-interface/pkg/cdi"
)

func init() { register("overflow", overflowMain) }

func overflowMain(args []string) int {
	fs := flag.NewFlagSet("overflow", flag.ExitOnError)
	_ = fs.Int64("seed", 1, "seed")
	_ = fs.Parse(args)
	start := time.Now()
	col := newCollector()
	installWatchHook()
	limit := 16384
	if data, err := os.ReadFile("/proc/sys/fs/inotify/max_queued_events"); err == nil {
		if n, err := strconv.Atoi(strings.TrimSpace(string(data))); err == nil {
			limit = n
		}
	}
	if limit > 400000 {
		col.count("skipped_queue_too_large", 1)
		col.done([]byte(`{"scenario":"inotify queue overflow"}`), false, 0)
		return col.finish(start)
	}
	for _, variant := range []string{"file replaced", "directory replaced"} {
		variant := variant
		pan, stack, hung := guarded(120*time.Second, func() {
			w := &autoWorld{root: mkScratch("overflow")}
			defer os.RemoveAll(w.root)
			_ = os.MkdirAll(filepath.Join(w.root, "dirs"), 0o755)
			_ = os.MkdirAll(filepath.Join(w.root, "stage"), 0o755)
			_ = w.present("A")
			cache, _ := cdi.NewCache(cdi.WithSpecDirs(w.dir("A")), cdi.WithAutoRefresh(true))
			g := &gate{tokens: make(chan struct{}), inner: make(chan struct{}), tail: make(chan struct{})}
			gates.Store(&cache.Mutex, g)
			cs := ""
			defer func() {
				g.leave(cs)
				g.open()
				gates.Delete(&cache.Mutex)
				_ = cache.Configure(cdi.WithAutoRefresh(false))
			}()
			moveIn := func(c int) error {
				st := w.staging()
				if err := os.WriteFile(st, autoContent("A", c), 0o644); err != nil {
					return err
				}
				return os.Rename(st, w.file("A", "f.json"))
			}
			atomic.StoreInt32(&g.closed, 1)
			if err := moveIn(1); err != nil { // 1.
				col.add(Mismatch{Props: []string{"TOOL"}, What: "fs-op", Note: err.Error()})
				return
			}
			for end := time.Now().Add(2 * time.Second); atomic.LoadInt32(&g.waiting) == 0 && time.Now().Before(end); {
				time.Sleep(time.Millisecond)
			}
			if atomic.LoadInt32(&g.waiting) == 0 {
				col.add(Mismatch{Props: []string{"TOOL"}, What: "the watcher goroutine did not receive the first event"})
				return
			}
			// only Create and Write events of names without a Spec extension are ignored by the cache (a Remove
			// makes it rescan whatever the name), and the kernel merges an event equal to the newest queued one:
			// alternate writes to two files
			tmps := []*os.File{}
			for _, n := range []string{"a.tmp", "b.tmp"} {
				f, err := os.OpenFile(w.file("A", n), os.O_CREATE|os.O_WRONLY, 0o644)
				if err != nil {
					col.add(Mismatch{Props: []string{"TOOL"}, What: "fs-op", Note: err.Error()})
					return
				}
				defer f.Close()
				tmps = append(tmps, f)
			}
			for i := 0; i < limit+4096; i++ { // 2.
				if _, err := tmps[i%2].Write([]byte{'x'}); err != nil {
					col.add(Mismatch{Props: []string{"TOOL"}, What: "fs-op", Note: err.Error()})
					return
				}
			}
			if cs = g.stepIn(2 * time.Second); cs == "inner" { // 3.
				cs = g.stepScan()
			}
			if cs != "tail" {
				// code that does not visit the observation points in this order: the scenario cannot be staged
				col.count("scenario_not_staged", 1)
				return
			}
			col.count("scenario_staged", 1)
			if variant == "file replaced" {
				if err := moveIn(2); err != nil { // 4.
					col.add(Mismatch{Props: []string{"TOOL"}, What: "fs-op", Note: err.Error()})
					return
				}
			} else {
				// 4'. the directory itself is removed and created again: all of it unseen
				for _, f := range tmps {
					f.Close()
				}
				_ = os.RemoveAll(w.dir("A"))
				if err := os.Mkdir(w.dir("A"), 0o755); err != nil {
					col.add(Mismatch{Props: []string{"TOOL"}, What: "fs-op", Note: err.Error()})
					return
				}
			}
			g.leave(cs) // 5.
			cs = ""
			g.open()
			if variant != "file replaced" {
				// 6'. when everything has been consumed, a file appears in the new directory
				time.Sleep(300 * time.Millisecond)
				if err := moveIn(2); err != nil {
					col.add(Mismatch{Props: []string{"TOOL"}, What: "fs-op", Note: err.Error()})
					return
				}
			}
			want := 2
			got := 0
			for end := time.Now().Add(10 * time.Second); time.Now().Before(end); time.Sleep(20 * time.Millisecond) {
				if d := cache.GetDevice(autoKind("A") + "=dev"); d != nil {
					got = atoi(envVal(d.ContainerEdits.Env, "V"))
				}
				if got == want {
					break
				}
			}
			if got != want {
				col.add(Mismatch{Props: []string{"C11"}, What: "no-convergence-after-inotify-queue-overflow", Want: fmt.Sprintf("V=%d (what a new cache returns)", want), Got: fmt.Sprintf("V=%d for 10 s", got),
					Note: fmt.Sprintf("%s while the kernel queue (%d events) was full; nothing else changes afterwards", variant, limit)})
			}
		})
		if pan != nil {
			col.add(Mismatch{Props: []string{"C08", "C11"}, What: "panic", Got: fmt.Sprint(pan), Note: stack})
		}
		if hung {
			col.add(Mismatch{Props: []string{"C11"}, What: "hang"})
		}
		col.done([]byte(`{"scenario":"inotify queue overflow, `+variant+`"}`), true, 5)
	}
	return col.finish(start)
}
