package main

// replay-annot: behaviours of spec/Annotations.tla executed on cdi.UpdateAnnotations,
// AnnotationKey, AnnotationValue and ParseAnnotations.

import (
	"encoding/json"
	"flag"
	"fmt"
	"os"
	"reflect"
	"regexp"
	"sort"
	"strings"
	"time"

	"tags.cncf.io/container-device-interface/pkg/cdi"
)

func init() { register("replay-annot", replayAnnotMain) }

type mRun struct {
	C string `json:"c"`
	K int    `json:"k"`
}

type mDevTok struct {
	T string `json:"t"`
	S string `json:"s"`
}

type mAnnEntry struct {
	Cdi  bool      `json:"cdi"`
	Name []mRun    `json:"name"`
	Val  []mDevTok `json:"val"`
}

type mAnnStep struct {
	Plugin  []mRun    `json:"plugin"`
	ID      []mRun    `json:"id"`
	Devs    []mDevTok `json:"devs"`
	OK      bool      `json:"ok"`
	KeyOK   bool      `json:"keyok"`
	ValOK   bool      `json:"valok"`
	Used    bool      `json:"used"`
	KeyName []mRun    `json:"keyname"`
}

type mAnnRow struct {
	Init struct {
		M     []mAnnEntry `json:"m"`
		IsNil bool        `json:"isnil"`
	} `json:"init"`
	Hist  []mAnnStep `json:"hist"`
	Final struct {
		OK   bool `json:"ok"`
		Keys []struct {
			Name []mRun    `json:"name"`
			Devs []mDevTok `json:"devs"`
		} `json:"keys"`
	} `json:"final"`
}

func expandRuns(r []mRun) string {
	var b strings.Builder
	for _, x := range r {
		b.WriteString(strings.Repeat(symCanon(x.C), x.K))
	}
	return b.String()
}

func devString(t mDevTok) string {
	switch t.S {
	case "q1":
		return "v1.com/cls=x"
	case "q2":
		return "v2.org/a.b=y:1"
	case "q3":
		return "a/b=c"
	case "plain":
		return "plain"
	case "empty":
		return ""
	case "comma":
		return "v1.com/cls=a,b"
	case "pad":
		return " v1.com/cls=x"
	}
	return t.S
}

func devStrings(ts []mDevTok) []string {
	out := make([]string, len(ts))
	for i, t := range ts {
		out[i] = devString(t)
	}
	return out
}

func entryKey(e mAnnEntry) string {
	if e.Cdi {
		return cdi.AnnotationPrefix + expandRuns(e.Name)
	}
	switch expandRuns(e.Name) {
	case "f1":
		return "other.io/x"
	default:
		return "cdi.k8s.iox/not-the-prefix"
	}
}

// the Kubernetes qualified-name rule (prefix/name), written out here independently of the code under test
var k8sName = regexp.MustCompile(`^([A-Za-z0-9][-A-Za-z0-9_.]*)?[A-Za-z0-9]$`)
var dns1123 = regexp.MustCompile(`^[a-z0-9]([-a-z0-9]*[a-z0-9])?(\.[a-z0-9]([-a-z0-9]*[a-z0-9])?)*$`)

func legalK8sKey(k string) bool {
	parts := strings.Split(k, "/")
	name := k
	if len(parts) == 2 {
		if len(parts[0]) == 0 || len(parts[0]) > 253 || !dns1123.MatchString(parts[0]) {
			return false
		}
		name = parts[1]
	} else if len(parts) != 1 {
		return false
	}
	return len(name) >= 1 && len(name) <= 63 && k8sName.MatchString(name)
}

func copyMap(m map[string]string) map[string]string {
	if m == nil {
		return nil
	}
	out := map[string]string{}
	for k, v := range m {
		out[k] = v
	}
	return out
}

func sameContent(a, b map[string]string) bool {
	if len(a) != len(b) {
		return false
	}
	for k, v := range a {
		if bv, ok := b[k]; !ok || bv != v {
			return false
		}
	}
	return true
}

func replayAnnotRow(idx int, line []byte, seed int64, col *collector) {
	var row mAnnRow
	if err := json.Unmarshal(line, &row); err != nil {
		col.add(Mismatch{Case: idx, Step: -1, Props: []string{"TOOL"}, What: "bad-row", Note: err.Error()})
		return
	}
	report := func(step int, m Mismatch) {
		m.Case, m.Step, m.Row = idx, step, json.RawMessage(line)
		col.add(m)
	}
	var ann map[string]string
	if !row.Init.IsNil {
		ann = map[string]string{}
	}
	for _, e := range row.Init.M {
		ann[entryKey(e)] = strings.Join(devStrings(e.Val), ",")
	}
	nontrivial := false
	drift := false
	pan, stack, hung := guarded(30*time.Second, func() {
		for si, st := range row.Hist {
			plugin, id, devs := expandRuns(st.Plugin), expandRuns(st.ID), devStrings(st.Devs)
			before := copyMap(ann)
			res, err := cdi.UpdateAnnotations(ann, plugin, id, devs)
			what := fmt.Sprintf("plugin=%q id=%q devs=%q", plugin, id, devs)
			// the argument map may only change by gaining the one new key
			if err != nil {
				if !sameContent(before, ann) || !sameContent(before, res) || (before == nil) != (res == nil) {
					report(si, Mismatch{Props: []string{"C15"}, What: "failed-update-changed-the-map", Want: before, Got: res, Note: what})
				}
				if st.OK {
					col.count("model_accepts_code_rejects", 1)
					drift = true
					return
				}
				continue
			}
			nontrivial = true
			var added []string
			for k := range res {
				if _, ok := before[k]; !ok {
					added = append(added, k)
				}
			}
			for k, v := range before {
				if rv, ok := res[k]; !ok || rv != v {
					report(si, Mismatch{Props: []string{"C15"}, What: "existing-key-overwritten-or-lost", Want: v, Got: rv, Note: what + " key=" + k})
				}
			}
			if len(added) != 1 {
				report(si, Mismatch{Props: []string{"C15"}, What: "not-exactly-one-key-added", Want: 1, Got: added, Note: what})
			} else {
				k := added[0]
				if !strings.HasPrefix(k, cdi.AnnotationPrefix) || !legalK8sKey(k) {
					report(si, Mismatch{Props: []string{"C15"}, What: "illegal-annotation-key", Want: "a legal Kubernetes key under " + cdi.AnnotationPrefix, Got: k, Note: what})
				}
				keys, pdevs, perr := cdi.ParseAnnotations(map[string]string{k: res[k]})
				if perr != nil || !reflect.DeepEqual(keys, []string{k}) || !reflect.DeepEqual(pdevs, devs) {
					report(si, Mismatch{Props: []string{"C15"}, What: "value-does-not-parse-back", Want: devs, Got: fmt.Sprint(keys, pdevs, perr), Note: what})
				}
				if ak, aerr := cdi.AnnotationKey(plugin, id); aerr != nil || ak != k {
					report(si, Mismatch{Props: []string{"C15"}, What: "AnnotationKey-disagrees-with-update", Want: k, Got: fmt.Sprint(ak, aerr), Note: what})
				}
				if want := cdi.AnnotationPrefix + expandRuns(st.KeyName); st.OK && k != want {
					report(si, Mismatch{Props: []string{"C15"}, What: "unexpected-key", Want: want, Got: k, Note: what})
				}
			}
			if !st.OK {
				// the model refuses: illegal key, key in use, or an unqualified device
				report(si, Mismatch{Props: []string{"C15"}, What: "update-accepted-what-the-rule-forbids",
					Want: fmt.Sprintf("error (keyok=%v used=%v valok=%v)", st.KeyOK, st.Used, st.ValOK), Got: added, Note: what})
			}
			ann = res
		}
		if drift {
			return
		}
		// AnnotationKey / AnnotationValue on their own
		for si, st := range row.Hist {
			plugin, id, devs := expandRuns(st.Plugin), expandRuns(st.ID), devStrings(st.Devs)
			if k, err := cdi.AnnotationKey(plugin, id); err == nil && (!legalK8sKey(k) || !strings.HasPrefix(k, cdi.AnnotationPrefix)) {
				report(si, Mismatch{Props: []string{"C15"}, What: "AnnotationKey-returned-illegal-key", Want: "error", Got: k})
			} else if err == nil && !st.KeyOK {
				report(si, Mismatch{Props: []string{"C15"}, What: "AnnotationKey-accepted-what-the-rule-forbids", Want: "error", Got: k})
			}
			if v, err := cdi.AnnotationValue(devs); err == nil {
				if !st.ValOK || !reflect.DeepEqual(strings.Split(v, ","), devs) {
					report(si, Mismatch{Props: []string{"C15"}, What: "AnnotationValue", Want: devs, Got: v})
				}
			}
		}
		// ParseAnnotations on the final map
		keys, devs, err := cdi.ParseAnnotations(ann)
		if !row.Final.OK {
			if err == nil || keys != nil || devs != nil {
				report(len(row.Hist), Mismatch{Props: []string{"C15"}, What: "parse-unqualified-name-not-refused-with-empty-results", Want: "error, nil, nil", Got: fmt.Sprint(keys, devs, err)})
			}
			return
		}
		if err != nil {
			report(len(row.Hist), Mismatch{Props: []string{"C15"}, What: "parse-failed", Want: "success", Got: err.Error()})
			return
		}
		want := map[string][]string{}
		for _, k := range row.Final.Keys {
			want[cdi.AnnotationPrefix+expandRuns(k.Name)] = devStrings(k.Devs)
		}
		gotKeys := append([]string{}, keys...)
		sort.Strings(gotKeys)
		wantKeys := []string{}
		for k := range want {
			wantKeys = append(wantKeys, k)
		}
		sort.Strings(wantKeys)
		if !reflect.DeepEqual(gotKeys, wantKeys) {
			report(len(row.Hist), Mismatch{Props: []string{"C15"}, What: "parse-keys", Want: wantKeys, Got: gotKeys})
			return
		}
		// devices: each key's devices in order, keys in the order returned
		var flat []string
		for _, k := range keys {
			flat = append(flat, want[k]...)
		}
		if !reflect.DeepEqual(append([]string{}, devs...), append([]string{}, flat...)) {
			report(len(row.Hist), Mismatch{Props: []string{"C15"}, What: "parse-devices", Want: flat, Got: devs})
		}
	})
	if pan != nil {
		report(-1, Mismatch{Props: []string{"C08", "C15"}, What: "panic", Got: fmt.Sprint(pan), Note: stack})
	}
	if hung {
		report(-1, Mismatch{Props: []string{"C08", "C15"}, What: "hang"})
	}
	col.done(line, nontrivial, len(row.Hist)+1)
}

func replayAnnotMain(args []string) int {
	fs := flag.NewFlagSet("replay-annot", flag.ExitOnError)
	var cf commonFlags
	addCommon(fs, &cf)
	_ = fs.Parse(args)
	start := time.Now()
	col := newCollector()
	if err := forEachCase(&cf, func(idx int, line []byte) { replayAnnotRow(idx, line, cf.seed, col) }); err != nil {
		fmt.Fprintln(os.Stderr, err)
		return 2
	}
	return col.finish(start)
}
