package main

// oracle-specname: rows of spec/SpecName.tla ([kind, id, name, file, enc]) - the generated
// transient Spec name, and what writing/removing under that name does to the directory tree.

import (
	"encoding/json"
	"flag"
	"fmt"
	"os"
	"path/filepath"
	"strings"
	"sync"
	"time"

	"tags.cncf.io/container-device-interface/pkg/cdi"
	"tags.cncf.io/container-device-interface/pkg/parser"
	specs "tags.cncf.io/container-device-interface/specs-go"
)

func init() { register("oracle-specname", oracleSpecNameMain) }

type mNameRow struct {
	Kind string   `json:"kind"`
	ID   []string `json:"id"`
	Name []string `json:"name"`
	File []string `json:"file"`
	Enc  string   `json:"enc"`
}

var nameKinds = map[string]string{"plain": "v1.com/cls", "dotted": "v1.com/a.b", "jsoncls": "v1.com/c.json", "yamlcls": "v.org/c.yaml"}

var nameMaxOnce sync.Once
var nameMaxOK bool

// nameMax255: can the scratch file system hold a 255-byte name (NAME_MAX of most file systems)?
func nameMax255() bool {
	nameMaxOnce.Do(func() {
		d := mkScratch("namemax")
		defer os.RemoveAll(d)
		nameMaxOK = os.WriteFile(filepath.Join(d, strings.Repeat("n", 255)), nil, 0o644) == nil
	})
	return nameMaxOK
}

func nameTok(t string) string {
	if k, ok := nameKinds[t]; ok {
		v, c := parser.ParseQualifier(k)
		return v + "-" + c
	}
	if t == "U" {
		return "é"
	}
	return t
}

func joinToks(ts []string) string {
	var b strings.Builder
	for _, t := range ts {
		b.WriteString(nameTok(t))
	}
	return b.String()
}

func oracleSpecNameRow(idx int, line []byte, seed int64, col *collector) {
	var row mNameRow
	if err := json.Unmarshal(line, &row); err != nil {
		col.add(Mismatch{Case: idx, Step: -1, Props: []string{"TOOL"}, What: "bad-row", Note: err.Error()})
		return
	}
	root := mkScratch("name")
	defer os.RemoveAll(root)
	report := func(step int, m Mismatch) {
		m.Case, m.Step, m.Row = idx, step, json.RawMessage(line)
		col.add(m)
	}
	kind := nameKinds[row.Kind]
	// "L" is a filler that makes the generated FILE name exactly NAME_MAX (255) bytes long: the longest
	// name a directory can hold, still a legal single component
	nL := 0
	for _, t := range row.ID {
		if t == "L" {
			nL++
		}
	}
	fills := make([]int, nL)
	if nL > 0 && !nameMax255() {
		col.count("rows_skipped_name_max_below_255", 1)
		return
	}
	if nL > 0 {
		rest := 0
		for _, t := range row.File {
			if t != "L" {
				rest += len(nameTok(t))
			}
		}
		budget := 255 - rest
		for i := range fills {
			fills[i] = budget / nL
		}
		fills[0] += budget % nL
	}
	joinToks := func(ts []string) string {
		var b strings.Builder
		k := 0
		for _, t := range ts {
			if t == "L" {
				b.WriteString(strings.Repeat("l", fills[k]))
				k++
				continue
			}
			b.WriteString(nameTok(t))
		}
		return b.String()
	}
	id := joinToks(row.ID)
	wantName, wantFile := joinToks(row.Name), joinToks(row.File)
	raw := &specs.Spec{Version: "0.6.0", Kind: kind, Devices: []specs.Device{{Name: "dev", ContainerEdits: specs.ContainerEdits{Env: []string{"A=b"}}}}}
	pan, stack, hung := guarded(60*time.Second, func() {
		name, err := cdi.GenerateNameForTransientSpec(raw, id)
		vendor, class := parser.ParseQualifier(kind)
		if n2 := cdi.GenerateTransientSpecName(vendor, class, id); err != nil || name != wantName || n2 != wantName {
			report(0, Mismatch{Props: []string{"C16"}, What: "generated-name", Want: wantName, Got: fmt.Sprint(name, " / ", n2, " ", err)})
		}
		if strings.ContainsRune(name, os.PathSeparator) || name == "." || name == ".." || name == "" {
			report(0, Mismatch{Props: []string{"C16"}, What: "name-is-not-a-single-path-component", Got: name, Note: fmt.Sprintf("id=%q", id)})
		}
		// layout: <root>/top/{low (populated), sibling (populated), last (missing)}
		low, last, sib := filepath.Join(root, "top", "low"), filepath.Join(root, "top", "last"), filepath.Join(root, "top", "sibling")
		_ = os.MkdirAll(low, 0o755)
		_ = os.MkdirAll(sib, 0o755)
		other := `{"cdiVersion":"0.6.0","kind":"` + kind + `","devices":[{"name":"dev","containerEdits":{"env":["LOW=1"]}}]}`
		_ = os.WriteFile(filepath.Join(low, "existing.json"), []byte(other), 0o644)
		_ = os.WriteFile(filepath.Join(sib, "keep.txt"), []byte("keep"), 0o644)
		if (seed+int64(idx))%2 == 0 {
			_ = os.MkdirAll(last, 0o755) // the last directory present or missing
			_ = os.WriteFile(filepath.Join(last, "unrelated.json"), []byte(strings.Replace(other, `"dev"`, `"other"`, 1)), 0o644)
		}
		cache, _ := cdi.NewCache(cdi.WithSpecDirs(low, last), cdi.WithAutoRefresh(false))
		before := treeOf(root)
		werr := cache.WriteSpec(raw, name)
		after := treeOf(root)
		added, removed, changed := diffTrees(before, after)
		target := filepath.Join("top", "last", wantFile)
		if werr != nil {
			if strings.ContainsRune(name, 0) {
				return
			}
			report(1, Mismatch{Props: []string{"C16"}, What: "write-under-generated-name-failed", Want: target, Got: werr.Error()})
			return
		}
		for _, p := range append(append(added, removed...), changed...) {
			if p != target && p != filepath.Join("top", "last") {
				report(1, Mismatch{Props: []string{"C16"}, What: "write-touched-other-path", Want: target, Got: p})
			}
		}
		if _, ok := after[target]; !ok {
			report(1, Mismatch{Props: []string{"C16"}, What: "expected-file-not-created", Want: target, Got: added})
			return
		}
		data, _ := os.ReadFile(filepath.Join(root, target))
		isJSON := len(data) > 0 && data[0] == '{'
		if isJSON != (row.Enc == "json") {
			report(1, Mismatch{Props: []string{"C16"}, What: "encoding", Want: row.Enc, Got: firstBytes(data, 40)})
		}
		if rerr := cache.Refresh(); rerr != nil {
			report(2, Mismatch{Props: []string{"C16"}, What: "refresh-after-write", Got: rerr.Error()})
		}
		dev := cache.GetDevice(kind + "=dev")
		if dev == nil || dev.GetSpec().GetPath() != filepath.Join(root, target) || dev.GetSpec().GetPriority() != 1 {
			got := "<unresolved>"
			if dev != nil {
				got = fmt.Sprintf("%s prio=%d", dev.GetSpec().GetPath(), dev.GetSpec().GetPriority())
			}
			report(2, Mismatch{Props: []string{"C16"}, What: "written-spec-does-not-take-precedence", Want: filepath.Join(root, target) + " prio=1", Got: got})
		}
		mid := treeOf(root)
		if rerr := cache.RemoveSpec(name); rerr != nil {
			report(3, Mismatch{Props: []string{"C16"}, What: "remove-failed", Got: rerr.Error()})
		}
		fin := treeOf(root)
		a2, r2, c2 := diffTrees(mid, fin)
		if len(a2) != 0 || len(c2) != 0 || len(r2) != 1 || r2[0] != target {
			report(3, Mismatch{Props: []string{"C16"}, What: "remove-did-not-delete-exactly-the-file", Want: target, Got: fmt.Sprint(a2, r2, c2)})
		}
		if rerr := cache.RemoveSpec(name); rerr != nil {
			report(4, Mismatch{Props: []string{"C16"}, What: "remove-of-missing-name-failed", Got: rerr.Error()})
		}
	})
	if pan != nil {
		report(-1, Mismatch{Props: []string{"C08", "C16"}, What: "panic", Got: fmt.Sprint(pan), Note: stack})
	}
	if hung {
		report(-1, Mismatch{Props: []string{"C08", "C16"}, What: "hang"})
	}
	col.done(line, len(row.ID) > 0, 5)
}

func oracleSpecNameMain(args []string) int {
	fs := flag.NewFlagSet("oracle-specname", flag.ExitOnError)
	var cf commonFlags
	addCommon(fs, &cf)
	_ = fs.Parse(args)
	start := time.Now()
	col := newCollector()
	if err := forEachCase(&cf, func(idx int, line []byte) { oracleSpecNameRow(idx, line, cf.seed, col) }); err != nil {
		fmt.Fprintln(os.Stderr, err)
		return 2
	}
	return col.finish(start)
}

func firstBytes(b []byte, n int) string {
	if len(b) > n {
		b = b[:n]
	}
	return string(b)
}
