package main

// schema-docs: documents for C17/C18 - the token documents of spec/SpecDocGen.tla rendered to
// JSON, JSON-level mutations of the well-formed ones at every level (member removed, every
// wrong type, numbers at the landmarks, extra member, null), and the re-marshalled form of
// every document a Go value can express.
// oracle-schema: each document with the verdict computed by spec/Schema.tla from the shipped
// schema files, evaluated on every entry point of the schema package.

import (
	"bytes"
	"encoding/json"
	"flag"
	"fmt"
	"math"
	"os"
	"path/filepath"
	"sort"
	"strings"
	"sync"
	"time"

	"sigs.k8s.io/yaml"
	"tags.cncf.io/container-device-interface/pkg/cdi"
	"tags.cncf.io/container-device-interface/schema"
	specs "tags.cncf.io/container-device-interface/specs-go"
)

func init() {
	register("schema-docs", schemaDocsMain)
	register("oracle-schema", oracleSchemaMain)
}

type schemaDoc struct {
	Doc    json.RawMessage `json:"doc"`
	Src    string          `json:"src"`    // token | mutation | struct | libvalid
	Struct bool            `json:"struct"` // the document is exactly what json.Marshal gives for a specs.Spec
	LibOK  bool            `json:"libok"`  // the library's own validation accepts it (C18)
	Valid  *bool           `json:"valid,omitempty"`
}

var wrongValues = []interface{}{"s", 5, 1.5, true, nil, []interface{}{}, obj{}, []interface{}{"x"}, obj{"k": "v"}, []interface{}{5}, obj{"k": 5}}
var landmarkNumbers = []interface{}{-1, 0, 1, uint64(4294967295), uint64(4294967296), uint64(math.MaxInt64), uint64(math.MaxInt64) + 1,
	json.Number("-9223372036854775808"), json.Number("-9223372036854775809"), 1.5, json.Number("18446744073709551616")}

func deepCopy(v interface{}) interface{} {
	b, _ := json.Marshal(v)
	var out interface{}
	d := json.NewDecoder(bytes.NewReader(b))
	d.UseNumber()
	_ = d.Decode(&out)
	return out
}

// mutate calls emit with every single-position JSON-level mutation of root.
func mutate(root interface{}, emit func(interface{})) {
	type step struct {
		key string
		idx int
	}
	var walk func(path []step, v interface{})
	set := func(path []step, f func(parent interface{}, last step)) {
		cp := deepCopy(root)
		cur := cp
		for _, s := range path[:len(path)-1] {
			if m, ok := cur.(map[string]interface{}); ok {
				cur = m[s.key]
			} else {
				cur = cur.([]interface{})[s.idx]
			}
		}
		f(cur, path[len(path)-1])
		emit(cp)
	}
	walk = func(path []step, v interface{}) {
		if len(path) > 0 {
			last := path[len(path)-1]
			if last.key != "" {
				set(path, func(p interface{}, l step) { delete(p.(map[string]interface{}), l.key) }) // member removed
			}
			vals := wrongValues
			if _, isNum := v.(json.Number); isNum {
				vals = append(append([]interface{}{}, wrongValues...), landmarkNumbers...)
			}
			for _, w := range vals {
				w := w
				set(path, func(p interface{}, l step) {
					if l.key != "" {
						p.(map[string]interface{})[l.key] = w
					} else {
						p.([]interface{})[l.idx] = w
					}
				})
			}
		}
		switch t := v.(type) {
		case map[string]interface{}:
			keys := make([]string, 0, len(t))
			for k := range t {
				keys = append(keys, k)
			}
			sort.Strings(keys)
			// extra member at this level
			if len(path) == 0 {
				cp := deepCopy(root).(map[string]interface{})
				cp["bogus"] = 1
				emit(cp)
			} else {
				set(append(append([]step{}, path...), step{key: "bogus"}), func(p interface{}, l step) { p.(map[string]interface{})["bogus"] = 1 })
			}
			for _, k := range keys {
				walk(append(append([]step{}, path...), step{key: k}), t[k])
			}
		case []interface{}:
			for i := range t {
				if i == 0 || i == len(t)-1 {
					walk(append(append([]step{}, path...), step{idx: i}), t[i])
				}
			}
		}
	}
	walk(nil, root)
}

// timeoutsInRange: C18 speaks about Specs whose hook timeouts are within 0..2^32-1
func timeoutsInRange(raw *specs.Spec) bool {
	ok := func(e *specs.ContainerEdits) bool {
		for _, h := range e.Hooks {
			if h != nil && h.Timeout != nil && (*h.Timeout < 0 || int64(*h.Timeout) > math.MaxUint32) {
				return false
			}
		}
		return true
	}
	if !ok(&raw.ContainerEdits) {
		return false
	}
	for i := range raw.Devices {
		if !ok(&raw.Devices[i].ContainerEdits) {
			return false
		}
	}
	return true
}

func libraryAccepts(raw *specs.Spec) bool {
	if !timeoutsInRange(raw) {
		return false
	}
	d := mkScratch("libok")
	defer os.RemoveAll(d)
	c, _ := cdi.NewCache(cdi.WithSpecDirs(d), cdi.WithAutoRefresh(false))
	return c.WriteSpec(raw, "probe.json") == nil
}

func schemaDocsMain(args []string) int {
	fs := flag.NewFlagSet("schema-docs", flag.ExitOnError)
	var cf commonFlags
	addCommon(fs, &cf)
	out := fs.String("out", "", "output ndjson")
	maxMut := fs.Int("max-mutations", 4000, "bound on JSON-level mutations per base document")
	_ = fs.Parse(args)
	w, err := os.Create(*out)
	if err != nil {
		fmt.Fprintln(os.Stderr, err)
		return 2
	}
	defer w.Close()
	seen := map[string]bool{}
	n := 0
	emit := func(v interface{}, src string) {
		b, err := json.Marshal(v)
		b = escapeCtl(b)
		if err != nil || seen[string(b)] {
			return
		}
		seen[string(b)] = true
		sd := schemaDoc{Doc: b, Src: src}
		// what a Go value can express: strict decode, then compare the re-marshalled form
		var raw *specs.Spec
		dec := json.NewDecoder(bytes.NewReader(b))
		dec.DisallowUnknownFields()
		if dec.Decode(&raw) == nil && raw != nil {
			rb, _ := json.Marshal(raw)
			var a, c interface{}
			_ = json.Unmarshal(b, &a)
			_ = json.Unmarshal(rb, &c)
			if jsonOf(a) == jsonOf(c) {
				sd.Struct = true
				pan, _, _ := guarded(20*time.Second, func() { sd.LibOK = libraryAccepts(raw) })
				if pan != nil {
					sd.LibOK = false
				}
			} else if !seen[string(rb)] {
				// also the form the in-memory value marshals to
				seen[string(rb)] = true
				s2 := schemaDoc{Doc: rb, Src: "struct", Struct: true}
				pan, _, _ := guarded(20*time.Second, func() { s2.LibOK = libraryAccepts(raw) })
				if pan != nil {
					s2.LibOK = false
				}
				l, _ := json.Marshal(s2)
				fmt.Fprintln(w, string(l))
				n++
			}
		}
		l, _ := json.Marshal(sd)
		fmt.Fprintln(w, string(l))
		n++
	}
	// a few documents that are not objects at the top
	for _, v := range []interface{}{[]interface{}{}, "text", 5, nil, obj{}} {
		emit(v, "mutation")
	}
	var rows []tDocRow
	_ = forEachCase(&commonFlags{cases: cf.cases, workers: 1, only: -1}, func(idx int, line []byte) {
		var r tDocRow
		if json.Unmarshal(line, &r) == nil {
			rows = append(rows, r)
		}
	})
	for _, r := range rows {
		if r.Doc.Ann == "toolarge" || r.Doc.Edits.Rdt == "long" {
			continue // 256 KiB documents add nothing for the schema
		}
		skip := false
		for _, d := range r.Doc.Devs {
			if d.Ann == "toolarge" || d.Edits.Rdt == "long" {
				skip = true
			}
		}
		if skip {
			continue
		}
		tree := deepCopy(renderDoc(r.Doc, false))
		emit(tree, "token")
		if r.NMut == 0 {
			k := 0
			mutate(tree, func(v interface{}) {
				if k < *maxMut {
					emit(v, "mutation")
					k++
				}
			})
		}
	}
	fmt.Println(jsonOf(map[string]int{"documents": n}))
	return 0
}

// ---- oracle-schema

func annotationsWellFormed(doc interface{}) bool {
	ok := true
	check := func(v interface{}) {
		m, isObj := v.(map[string]interface{})
		if !isObj {
			return
		}
		total := 0
		for k, val := range m {
			if !legalK8sKey(strings.ToLower(k)) {
				ok = false
			}
			if s, isStr := val.(string); isStr {
				total += len(k) + len(s)
			} else {
				ok = false
			}
		}
		if total > 256*1024 {
			ok = false
		}
	}
	top, isObj := doc.(map[string]interface{})
	if !isObj {
		return true
	}
	if a, has := top["annotations"]; has {
		check(a)
	}
	if devs, isArr := top["devices"].([]interface{}); isArr {
		for _, d := range devs {
			if dm, isObj := d.(map[string]interface{}); isObj {
				if a, has := dm["annotations"]; has {
					check(a)
				}
			}
		}
	}
	return ok
}

var activeMu sync.Mutex

type schemaUnderTest struct {
	name string
	s    *schema.Schema
	kind string // "files" (must decide like the shipped files) | "noop" (must accept everything parseable)
}

func oracleSchemaRow(idx int, line []byte, schemas []schemaUnderTest, col *collector) {
	var row schemaDoc
	if err := json.Unmarshal(line, &row); err != nil || row.Valid == nil {
		col.add(Mismatch{Case: idx, Step: -1, Props: []string{"TOOL"}, What: "bad-row", Note: fmt.Sprint(err)})
		return
	}
	want := *row.Valid
	var doc interface{}
	dec := json.NewDecoder(bytes.NewReader(row.Doc))
	dec.UseNumber()
	_ = dec.Decode(&doc)
	annOK := annotationsWellFormed(doc)
	yb, yerr := yaml.JSONToYAML(row.Doc)
	root := mkScratch("schema")
	defer os.RemoveAll(root)
	jf, yf := filepath.Join(root, "d.json"), filepath.Join(root, "d.yaml")
	_ = os.WriteFile(jf, row.Doc, 0o644)
	if yerr == nil {
		_ = os.WriteFile(yf, yb, 0o644)
	}
	short := string(row.Doc)
	if len(short) > 1200 {
		short = short[:1200] + "..."
	}
	report := func(m Mismatch) {
		m.Case, m.Row = idx, json.RawMessage(line)
		if m.Note == "" {
			m.Note = short
		}
		col.add(m)
	}
	steps := 0
	for si, su := range schemas {
		si, su := si, su
		pan, stack, hung := guarded(60*time.Second, func() {
			verdicts := map[string]bool{}
			verdicts["ValidateData(json)"] = su.s.ValidateData(row.Doc) == nil
			verdicts["ValidateFile(.json)"] = su.s.ValidateFile(jf) == nil
			verdicts["ValidateReader(json)"] = su.s.ValidateReader(bytes.NewReader(row.Doc)) == nil
			// the same document in another legal JSON spelling: "/" written as "\/" ('/' occurs in strings only)
			if esc := bytes.ReplaceAll(row.Doc, []byte("/"), []byte("\\/")); !bytes.Equal(esc, row.Doc) && !bytes.Contains(row.Doc, []byte("\\")) {
				verdicts["ValidateData(json, escaped solidus)"] = su.s.ValidateData(esc) == nil
				verdicts["ValidateReader(json, escaped solidus)"] = su.s.ValidateReader(bytes.NewReader(esc)) == nil
				ef := jf + ".esc.json"
				if os.WriteFile(ef, esc, 0o644) == nil {
					verdicts["ValidateFile(.json, escaped solidus)"] = su.s.ValidateFile(ef) == nil
				}
			}
			_, rerr := su.s.ReadAndValidate(bytes.NewReader(row.Doc))
			verdicts["ReadAndValidate(json)"] = rerr == nil
			var generic interface{}
			gd := json.NewDecoder(bytes.NewReader(row.Doc))
			gd.UseNumber() // keep 64-bit integers exact
			_ = gd.Decode(&generic)
			if _, isObj := generic.(map[string]interface{}); isObj {
				verdicts["ValidateType(map)"] = su.s.ValidateType(generic) == nil
			}
			if yerr == nil {
				verdicts["ValidateData(yaml)"] = su.s.ValidateData(yb) == nil
				verdicts["ValidateFile(.yaml)"] = su.s.ValidateFile(yf) == nil
			}
			if row.Struct {
				var raw *specs.Spec
				if json.Unmarshal(row.Doc, &raw) == nil && raw != nil {
					verdicts["Validate(*Spec)"] = su.s.Validate(raw) == nil
					verdicts["ValidateType(*Spec)"] = su.s.ValidateType(raw) == nil
				}
			}
			// a schema-valid document that parses into a Spec stays valid as the in-memory value
			if su.kind == "files" && want && annOK {
				var parsed *specs.Spec
				sd := json.NewDecoder(bytes.NewReader(row.Doc))
				sd.DisallowUnknownFields()
				if sd.Decode(&parsed) == nil && parsed != nil {
					if err := su.s.Validate(parsed); err != nil {
						report(Mismatch{Step: si, Props: []string{"C17"}, What: "valid-document-becomes-invalid-as-in-memory-spec", Want: "valid", Got: err.Error(), Note: su.name + ": " + short})
					}
				}
			}
			// the package-level functions act on the active schema (schema.Set): same verdicts
			activeMu.Lock()
			schema.Set(su.s)
			pkg := map[string]bool{
				"ValidateData(json)":   schema.ValidateData(row.Doc) == nil,
				"ValidateFile(.json)":  schema.ValidateFile(jf) == nil,
				"ValidateReader(json)": schema.ValidateReader(bytes.NewReader(row.Doc)) == nil,
			}
			if yerr == nil {
				pkg["ValidateData(yaml)"] = schema.ValidateData(yb) == nil
			}
			if _, isObj := generic.(map[string]interface{}); isObj {
				pkg["ValidateType(map)"] = schema.ValidateType(generic) == nil
			}
			if schema.Get() != su.s {
				report(Mismatch{Step: si, Props: []string{"C17"}, What: "active-schema-is-not-the-one-set", Note: su.name})
			}
			activeMu.Unlock()
			for ep, got := range pkg {
				if got != verdicts[ep] {
					report(Mismatch{Step: si, Props: []string{"C17"}, What: "package-level-function-disagrees-with-the-active-schema", Want: verdicts[ep], Got: got, Note: su.name + " schema." + ep + ": " + short})
				}
			}
			steps += len(verdicts) + len(pkg)
			names := make([]string, 0, len(verdicts))
			for k := range verdicts {
				names = append(names, k)
			}
			sort.Strings(names)
			for _, ep := range names {
				got := verdicts[ep]
				switch {
				case su.kind == "noop":
					if !got {
						report(Mismatch{Step: si, Props: []string{"C17"}, What: "no-op-schema-rejects-parseable-document", Want: true, Got: false, Note: su.name + " " + ep + ": " + short})
					}
				case annOK:
					if got != want {
						props := []string{"C17"}
						if row.LibOK && want {
							props = []string{"C17", "C18"}
						}
						report(Mismatch{Step: si, Props: props, What: "verdict-differs-from-schema-files", Want: want, Got: got, Note: su.name + " " + ep + ": " + short})
					}
				default:
					// ill-formed annotation keys: only "rejects when the schema rejects" is pinned, and the two encodings agree
					if !want && got {
						report(Mismatch{Step: si, Props: []string{"C17"}, What: "accepts-what-the-schema-files-reject", Want: want, Got: got, Note: su.name + " " + ep + ": " + short})
					}
				}
			}
			if su.kind == "files" && yerr == nil {
				if verdicts["ValidateData(json)"] != verdicts["ValidateData(yaml)"] {
					report(Mismatch{Step: si, Props: []string{"C17"}, What: "json-and-yaml-encodings-get-different-verdicts", Want: verdicts["ValidateData(json)"], Got: verdicts["ValidateData(yaml)"], Note: su.name + " ValidateData: " + short})
				}
				if verdicts["ValidateFile(.json)"] != verdicts["ValidateFile(.yaml)"] {
					report(Mismatch{Step: si, Props: []string{"C17"}, What: "json-and-yaml-encodings-get-different-verdicts", Want: verdicts["ValidateFile(.json)"], Got: verdicts["ValidateFile(.yaml)"], Note: su.name + " ValidateFile: " + short})
				}
			}
			// C18: what the library accepts passes the builtin schema
			if su.kind == "files" && row.LibOK && !want {
				report(Mismatch{Step: si, Props: []string{"C18"}, What: "library-valid-spec-fails-the-schema-files", Want: "schema-valid", Got: "rejected by the shipped schema files (oracle)"})
			}
		})
		if pan != nil {
			report(Mismatch{Step: si, Props: []string{"C08", "C17"}, What: "panic", Got: fmt.Sprint(pan), Note: su.name + ": " + short + "\n" + stack})
		}
		if hung {
			report(Mismatch{Step: si, Props: []string{"C08", "C17"}, What: "hang", Note: su.name + ": " + short})
		}
	}
	if want {
		col.count("schema_valid_docs", 1)
	}
	if row.LibOK {
		col.count("library_valid_docs", 1)
	}
	if !annOK {
		col.count("ill_formed_annotation_docs", 1)
	}
	col.done(line, true, steps)
}

func oracleSchemaMain(args []string) int {
	fs := flag.NewFlagSet("oracle-schema", flag.ExitOnError)
	var cf commonFlags
	addCommon(fs, &cf)
	repo := fs.String("repo", "/repo", "repository (for the externally loaded copy of the schema files)")
	_ = fs.Parse(args)
	start := time.Now()
	col := newCollector()
	ext := mkScratch("extschema")
	defer os.RemoveAll(ext)
	for _, f := range []string{"schema.json", "defs.json"} {
		b, err := os.ReadFile(filepath.Join(*repo, "schema", f))
		if err != nil {
			fmt.Fprintln(os.Stderr, err)
			return 2
		}
		_ = os.WriteFile(filepath.Join(ext, f), b, 0o644)
	}
	external, err := schema.Load(filepath.Join(ext, "schema.json"))
	if err != nil {
		fmt.Fprintln(os.Stderr, "external schema:", err)
		return 2
	}
	builtin, _ := schema.Load("builtin")
	none, _ := schema.Load("none")
	schemas := []schemaUnderTest{{"builtin", builtin, "files"}, {"external copy", external, "files"}, {"none", none, "noop"}, {"nil", nil, "noop"}}
	if err := forEachCase(&cf, func(idx int, line []byte) { oracleSchemaRow(idx, line, schemas, col) }); err != nil {
		fmt.Fprintln(os.Stderr, err)
		return 2
	}
	schema.Set(schema.BuiltinSchema())
	return col.finish(start)
}

// oracle-c18: every library-valid document, with the builtin schema installed as the Spec
// validator (process-wide, hence a sub-command of its own): writing both encodings, reading
// them back and validating the written files must all succeed.
func init() { register("oracle-c18", oracleC18Main) }

func oracleC18Main(args []string) int {
	fs := flag.NewFlagSet("oracle-c18", flag.ExitOnError)
	var cf commonFlags
	addCommon(fs, &cf)
	_ = fs.Parse(args)
	start := time.Now()
	col := newCollector()
	builtin := schema.BuiltinSchema()
	cdi.SetSpecValidator(builtin)
	err := forEachCase(&cf, func(idx int, line []byte) {
		var row schemaDoc
		if json.Unmarshal(line, &row) != nil || !row.LibOK || !row.Struct {
			return
		}
		var raw *specs.Spec
		if json.Unmarshal(row.Doc, &raw) != nil || raw == nil {
			return
		}
		short := string(row.Doc)
		if len(short) > 1200 {
			short = short[:1200] + "..."
		}
		report := func(m Mismatch) {
			m.Case, m.Row, m.Props = idx, json.RawMessage(line), []string{"C18"}
			if m.Note == "" {
				m.Note = short
			}
			col.add(m)
		}
		dir := mkScratch("c18")
		defer os.RemoveAll(dir)
		pan, stack, _ := guarded(60*time.Second, func() {
			for _, name := range []string{"w.json", "w.yaml"} {
				sub := filepath.Join(dir, name+".d")
				c, _ := cdi.NewCache(cdi.WithSpecDirs(sub), cdi.WithAutoRefresh(false))
				if err := c.WriteSpec(raw, name); err != nil {
					report(Mismatch{What: "validator-turns-writable-spec-into-error", Want: "success", Got: err.Error(), Note: name + ": " + short})
					continue
				}
				if err := c.Refresh(); err != nil {
					report(Mismatch{What: "validator-turns-loadable-spec-into-error", Want: "no error", Got: err.Error(), Note: name + ": " + short})
				}
				p := filepath.Join(sub, name)
				if _, err := cdi.ReadSpec(p, 0); err != nil {
					report(Mismatch{What: "schema-checking-reader-refuses-written-file", Want: "success", Got: err.Error(), Note: name + ": " + short})
				}
				if err := builtin.ValidateFile(p); err != nil {
					report(Mismatch{What: "written-file-fails-the-builtin-schema", Want: "valid", Got: err.Error(), Note: name + ": " + short})
				}
			}
			if err := builtin.Validate(raw); err != nil {
				report(Mismatch{What: "in-memory-spec-fails-the-builtin-schema", Want: "valid", Got: err.Error()})
			}
		})
		if pan != nil {
			report(Mismatch{What: "panic", Got: fmt.Sprint(pan), Note: stack})
		}
		col.done(line, true, 7)
	})
	cdi.SetSpecValidator(nil)
	if err != nil {
		fmt.Fprintln(os.Stderr, err)
		return 2
	}
	return col.finish(start)
}
