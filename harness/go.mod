module verif/harness

go 1.20

require (
	github.com/opencontainers/runtime-spec v1.1.0
	github.com/opencontainers/runtime-tools v0.9.1-0.20221107090550-2e043c6bd626
	gopkg.in/yaml.v3 v3.0.1
	sigs.k8s.io/yaml v1.4.0
	tags.cncf.io/container-device-interface v1.0.1
	tags.cncf.io/container-device-interface/schema v0.0.0
	tags.cncf.io/container-device-interface/specs-go v1.0.0
)

require (
	github.com/fsnotify/fsnotify v1.5.1 // indirect
	github.com/syndtr/gocapability v0.0.0-20200815063812-42c35b437635 // indirect
	github.com/xeipuuv/gojsonpointer v0.0.0-20180127040702-4e3ac2762d5f // indirect
	github.com/xeipuuv/gojsonreference v0.0.0-20180127040603-bd5ef7bd5415 // indirect
	github.com/xeipuuv/gojsonschema v1.2.0 // indirect
	golang.org/x/mod v0.19.0 // indirect
	golang.org/x/sys v0.19.0 // indirect
)

replace (
	tags.cncf.io/container-device-interface => /repo
	tags.cncf.io/container-device-interface/schema => /repo/schema
	tags.cncf.io/container-device-interface/specs-go => /repo/specs-go
)
