package main

// reconf: C20's resource side, run in a process of its own (descriptor, watch and goroutine
// counts are process-wide): many reconfigurations of one cache, the reaction to changes in
// final and in dropped directories, the package-level default cache before/after first use,
// and (reconf-short) a cache set up under descriptor exhaustion.

import (
	"encoding/json"
	"flag"
	"fmt"
	"os"
	"os/exec"
	"path/filepath"
	"runtime"
	"strings"
	"sync/atomic"
	"syscall"
	"time"

	"tags.cncf.io/container-device-interface/pkg/cdi"
)

func init() {
	register("reconf", reconfMain)
	register("reconf-short", reconfShortMain)
	register("reconf-default", reconfDefaultMain)
}

type resCount struct {
	Inotify    int `json:"inotify_fds"`
	Watches    int `json:"inotify_watches"`
	Fds        int `json:"fds"`
	WatchGor   int `json:"watch_goroutines"`
	ReaderGor  int `json:"fsnotify_reader_goroutines"`
	Goroutines int `json:"goroutines"`
}

func countResources() resCount {
	var r resCount
	ents, _ := os.ReadDir("/proc/self/fd")
	for _, e := range ents {
		r.Fds++
		l, err := os.Readlink("/proc/self/fd/" + e.Name())
		if err == nil && strings.Contains(l, "inotify") {
			r.Inotify++
			if b, err := os.ReadFile("/proc/self/fdinfo/" + e.Name()); err == nil {
				r.Watches += strings.Count(string(b), "inotify wd:")
			}
		}
	}
	buf := make([]byte, 1<<20)
	n := runtime.Stack(buf, true)
	st := string(buf[:n])
	r.WatchGor = strings.Count(st, "(*watch).watch(")
	r.ReaderGor = strings.Count(st, "(*Watcher).readEvents(")
	r.Goroutines = runtime.NumGoroutine()
	return r
}

func settle(want func(resCount) bool, d time.Duration) (resCount, bool) {
	end := time.Now().Add(d)
	for {
		r := countResources()
		if want(r) {
			return r, true
		}
		if time.Now().After(end) {
			return r, false
		}
		time.Sleep(10 * time.Millisecond)
	}
}

func specBytes(kind string, v int) []byte {
	return []byte(fmt.Sprintf(`{"cdiVersion":"0.3.0","kind":"%s","devices":[{"name":"dev","containerEdits":{"env":["V=%d"]}}]}`, kind, v))
}

func reconfMain(args []string) int {
	fs := flag.NewFlagSet("reconf", flag.ExitOnError)
	n := fs.Int("n", 200, "reconfigurations")
	seed := fs.Int64("seed", 1, "seed")
	_ = fs.Parse(args)
	start := time.Now()
	col := newCollector()
	root := mkScratch("reconf")
	defer os.RemoveAll(root)
	a, b, c := filepath.Join(root, "a"), filepath.Join(root, "b"), filepath.Join(root, "c-missing")
	_ = os.Mkdir(a, 0o755)
	_ = os.Mkdir(b, 0o755)
	_ = os.WriteFile(filepath.Join(a, "x.json"), specBytes("va.com/cls", 1), 0o644)
	_ = os.WriteFile(filepath.Join(b, "x.json"), specBytes("vb.com/cls", 1), 0o644)
	var refreshes int64
	cdi.VerifHook = func(p string, _ ...interface{}) {
		if p == "refresh.done" {
			atomic.AddInt64(&refreshes, 1)
		}
	}
	report := func(m Mismatch) { m.Props = []string{"C20"}; col.add(m) }
	base := countResources()
	options := []struct {
		dirs []string
		auto bool
	}{{[]string{a, b}, true}, {[]string{a}, true}, {[]string{b, c}, true}, {[]string{a, b}, false}, {[]string{b}, true}, {[]string{a, c, b}, true},
		{[]string{}, true}, {[]string{c}, true}, {[]string{}, false}} // also: no directory at all, only a missing one
	cache, _ := cdi.NewCache(cdi.WithSpecDirs(options[0].dirs...), cdi.WithAutoRefresh(true))
	existing := func(ds []string) int {
		k := 0
		for _, d := range ds {
			if _, err := os.Stat(d); err == nil {
				k++
			}
		}
		return k
	}
	var first resCount
	for i := 0; i < *n; i++ {
		o := options[int((int64(i)*7+*seed)%int64(len(options)))]
		if err := cache.Configure(cdi.WithSpecDirs(o.dirs...), cdi.WithAutoRefresh(o.auto)); err != nil {
			report(Mismatch{Case: i, What: "configure-error", Got: err.Error()})
		}
		if i%10 == 0 || i == *n-1 {
			wantIno, wantW, wantG := base.Inotify, 0, 0
			if o.auto {
				wantIno, wantW, wantG = base.Inotify+1, existing(o.dirs), 1
			}
			got, ok := settle(func(r resCount) bool {
				return r.Inotify == wantIno && r.Watches == wantW && r.WatchGor == wantG && r.ReaderGor == wantG
			}, 2*time.Second)
			if !ok {
				report(Mismatch{Case: i, What: "resources-do-not-return-to-one-watcher", Want: fmt.Sprintf("inotify=%d watches=%d watch goroutines=%d", wantIno, wantW, wantG), Got: got,
					Note: fmt.Sprintf("after %d reconfigurations (dirs=%v auto=%v)", i+1, o.dirs, o.auto)})
				break
			}
			if i == 0 {
				first = got
			} else if got.Fds > first.Fds+4 || got.Goroutines > first.Goroutines+4 {
				report(Mismatch{Case: i, What: "resources-grow-with-reconfigurations", Want: first, Got: got})
				break
			}
			// same devices and errors as a new cache with these options
			fresh, _ := cdi.NewCache(cdi.WithSpecDirs(o.dirs...), cdi.WithAutoRefresh(false))
			if got, want := fmt.Sprint(cache.ListDevices()), fmt.Sprint(fresh.ListDevices()); got != want {
				report(Mismatch{Case: i, What: "devices-differ-from-new-cache", Want: want, Got: got})
			}
			if got, want := fmt.Sprint(cache.GetSpecDirectories()), fmt.Sprint(fresh.GetSpecDirectories()); got != want {
				report(Mismatch{Case: i, What: "directories-differ-from-new-cache", Want: want, Got: got})
			}
		}
		col.done([]byte(jsonOf(map[string]interface{}{"i": i, "dirs": o.dirs, "auto": o.auto})), true, 1)
	}
	// reaction: changes in exactly the final directories
	_ = cache.Configure(cdi.WithSpecDirs(a), cdi.WithAutoRefresh(true))
	cache.ListDevices()
	time.Sleep(50 * time.Millisecond)
	r0 := atomic.LoadInt64(&refreshes)
	_ = os.WriteFile(filepath.Join(b, "y.json"), specBytes("vb.com/other", 1), 0o644) // dropped directory
	time.Sleep(300 * time.Millisecond)
	if r1 := atomic.LoadInt64(&refreshes); r1 != r0 {
		report(Mismatch{What: "change-in-dropped-directory-causes-refresh", Want: r0, Got: r1})
	}
	_ = os.WriteFile(filepath.Join(a, "y.json"), specBytes("va.com/other", 1), 0o644) // final directory
	ok := false
	for end := time.Now().Add(5 * time.Second); time.Now().Before(end); time.Sleep(10 * time.Millisecond) {
		if cache.GetDevice("va.com/other=dev") != nil {
			ok = true
			break
		}
	}
	if !ok {
		report(Mismatch{What: "change-in-final-directory-not-noticed"})
	}
	// auto-refresh off: no reaction at all
	_ = cache.Configure(cdi.WithAutoRefresh(false))
	r0 = atomic.LoadInt64(&refreshes)
	_ = os.Remove(filepath.Join(a, "y.json"))
	time.Sleep(300 * time.Millisecond)
	if r1 := atomic.LoadInt64(&refreshes); r1 != r0 || cache.GetDevice("va.com/other=dev") == nil {
		report(Mismatch{What: "manual-mode-cache-reacts-to-changes", Want: r0, Got: r1})
	}
	if got, ok := settle(func(r resCount) bool { return r.Inotify == base.Inotify && r.WatchGor == 0 }, 2*time.Second); !ok {
		report(Mismatch{What: "resources-held-after-auto-refresh-off", Want: base, Got: got})
	}
	col.res.Extra["final_resources"] = countResources()
	return col.finish(start)
}

// reconf-default: the package-level default cache, in a process of its own.
// mode "first": cdi.Configure(opts) is the first use; mode "later": GetDefaultCache() first.
func reconfDefaultMain(args []string) int {
	fs := flag.NewFlagSet("reconf-default", flag.ExitOnError)
	mode := fs.String("mode", "first", "first|later")
	_ = fs.Parse(args)
	start := time.Now()
	col := newCollector()
	root := mkScratch("defcache")
	defer os.RemoveAll(root)
	a := filepath.Join(root, "a")
	_ = os.Mkdir(a, 0o755)
	_ = os.WriteFile(filepath.Join(a, "x.json"), specBytes("va.com/cls", 1), 0o644)
	if *mode == "later" {
		_ = cdi.GetDefaultCache().ListDevices() // first use with the default directories
	}
	if err := cdi.Configure(cdi.WithSpecDirs(a), cdi.WithAutoRefresh(false)); err != nil {
		col.add(Mismatch{Props: []string{"C20"}, What: "default-cache-configure-error", Got: err.Error()})
	}
	fresh, _ := cdi.NewCache(cdi.WithSpecDirs(a), cdi.WithAutoRefresh(false))
	dc := cdi.GetDefaultCache()
	if got, want := fmt.Sprint(dc.ListDevices(), dc.GetSpecDirectories()), fmt.Sprint(fresh.ListDevices(), fresh.GetSpecDirectories()); got != want {
		col.add(Mismatch{Props: []string{"C20"}, What: "default-cache-differs-from-new-cache", Want: want, Got: got, Note: *mode})
	}
	if len(cdi.GetErrors()) != len(fresh.GetErrors()) {
		col.add(Mismatch{Props: []string{"C20"}, What: "default-cache-errors-differ", Want: fresh.GetErrors(), Got: fmt.Sprint(cdi.GetErrors()), Note: *mode})
	}
	if got, ok := settle(func(r resCount) bool { return r.Inotify == 0 && r.WatchGor == 0 }, 2*time.Second); !ok {
		col.add(Mismatch{Props: []string{"C20"}, What: "default-cache-keeps-watcher-in-manual-mode", Got: got, Note: *mode})
	}
	col.done([]byte(`{"mode":"`+*mode+`"}`), true, 1)
	return col.finish(start)
}

// reconf-short: a cache created and reconfigured while no descriptor is available for a watcher.
func reconfShortMain(args []string) int {
	start := time.Now()
	col := newCollector()
	report := func(m Mismatch) { m.Props = []string{"C20"}; col.add(m) }
	root := mkScratch("short")
	defer os.RemoveAll(root)
	a := filepath.Join(root, "a")
	_ = os.Mkdir(a, 0o755)
	_ = os.WriteFile(filepath.Join(a, "x.json"), specBytes("va.com/cls", 1), 0o644)
	// a second cache that had a working watcher before the shortage and is in manual mode when it starts
	a2 := filepath.Join(root, "a2")
	_ = os.Mkdir(a2, 0o755)
	pre, _ := cdi.NewCache(cdi.WithSpecDirs(a2), cdi.WithAutoRefresh(true))
	_ = pre.ListDevices()
	_ = pre.Configure(cdi.WithAutoRefresh(false))
	// exhaust descriptors: lower the limit to what is in use now
	var old syscall.Rlimit
	_ = syscall.Getrlimit(syscall.RLIMIT_NOFILE, &old)
	inUse := countResources().Fds
	// keep a few descriptors free for directory scans, none for inotify+epoll+pipe
	var hold []*os.File
	lim := syscall.Rlimit{Cur: uint64(inUse + 40), Max: old.Max}
	_ = syscall.Setrlimit(syscall.RLIMIT_NOFILE, &lim)
	for {
		f, err := os.Open("/dev/null")
		if err != nil {
			break
		}
		hold = append(hold, f)
	}
	// release two: enough to read a directory and a file, not enough for a watcher (inotify + epoll + 2 pipe ends)
	for i := 0; i < 2 && len(hold) > 0; i++ {
		hold[len(hold)-1].Close()
		hold = hold[:len(hold)-1]
	}
	pan, stack, _ := guarded(60*time.Second, func() {
		cache, _ := cdi.NewCache(cdi.WithSpecDirs(a), cdi.WithAutoRefresh(true))
		if cache.GetDevice("va.com/cls=dev") == nil {
			report(Mismatch{What: "cache-set-up-during-shortage-does-not-answer", Got: fmt.Sprint(cache.GetErrors())})
		}
		if len(cache.GetErrors()) == 0 {
			col.count("shortage_not_effective", 1)
		}
		// the directory changes: every query answers from the current contents
		_ = os.WriteFile(filepath.Join(a, "x.json"), specBytes("va.com/cls", 2), 0o644)
		d := cache.GetDevice("va.com/cls=dev")
		if d == nil || envVal(d.ContainerEdits.Env, "V") != "2" {
			report(Mismatch{What: "query-during-shortage-is-stale", Want: "V=2", Got: fmt.Sprint(d)})
		}
		_ = os.Remove(filepath.Join(a, "x.json"))
		if got := cache.ListDevices(); len(got) != 0 {
			report(Mismatch{What: "query-during-shortage-is-stale", Want: "[]", Got: got})
		}
		_ = cache.Configure(cdi.WithSpecDirs(a), cdi.WithAutoRefresh(true)) // reconfigured during the shortage
		_ = os.WriteFile(filepath.Join(a, "x.json"), specBytes("va.com/cls", 3), 0o644)
		if d := cache.GetDevice("va.com/cls=dev"); d == nil || envVal(d.ContainerEdits.Env, "V") != "3" {
			report(Mismatch{What: "query-after-reconfiguration-during-shortage-is-stale", Want: "V=3", Got: fmt.Sprint(d)})
		}
		// auto-refresh switched on again during the shortage, on a cache that once had a watcher
		_ = pre.Configure(cdi.WithAutoRefresh(true))
		_ = os.WriteFile(filepath.Join(a2, "p.json"), specBytes("vp.com/cls", 1), 0o644)
		if pre.GetDevice("vp.com/cls=dev") == nil {
			report(Mismatch{What: "query-after-switching-auto-refresh-on-during-shortage-is-stale", Want: "vp.com/cls=dev", Got: fmt.Sprint(pre.ListDevices(), pre.GetErrors())})
		}
		_ = os.Remove(filepath.Join(a2, "p.json"))
		if got := pre.ListDevices(); len(got) != 0 {
			report(Mismatch{What: "query-after-switching-auto-refresh-on-during-shortage-is-stale", Want: "[]", Got: got})
		}
		// the shortage ends; a reconfiguration gets a working watcher and no stale errors
		for _, f := range hold {
			f.Close()
		}
		hold = nil
		_ = syscall.Setrlimit(syscall.RLIMIT_NOFILE, &old)
		_ = cache.Configure(cdi.WithSpecDirs(a), cdi.WithAutoRefresh(true))
		if errs := cache.GetErrors(); len(errs) != 0 {
			report(Mismatch{What: "errors-remain-after-the-shortage", Got: fmt.Sprint(errs)})
		}
		_ = os.WriteFile(filepath.Join(a, "x.json"), specBytes("va.com/cls", 4), 0o644)
		ok := false
		for end := time.Now().Add(5 * time.Second); time.Now().Before(end); time.Sleep(10 * time.Millisecond) {
			if d := cache.GetDevice("va.com/cls=dev"); d != nil && envVal(d.ContainerEdits.Env, "V") == "4" {
				ok = true
				break
			}
		}
		if !ok {
			report(Mismatch{What: "no-auto-refresh-after-the-shortage"})
		}
		_ = cache.Configure(cdi.WithAutoRefresh(false))
		_ = pre.Configure(cdi.WithAutoRefresh(false))
	})
	if pan != nil {
		col.add(Mismatch{Props: []string{"C08", "C20"}, What: "panic", Got: fmt.Sprint(pan), Note: stack})
	}
	col.done([]byte(`{"scenario":"descriptor shortage"}`), true, 6)
	// second scenario: NO descriptor is free when a cache that has a working watcher is reconfigured. Closing the
	// old watcher frees just what the new one needs; nothing is left to open a directory with. While that lasts
	// nothing can be read; once it is over the cache has to answer from the directory again.
	pan, stack, _ = guarded(60*time.Second, func() {
		b := filepath.Join(root, "b")
		_ = os.Mkdir(b, 0o755)
		_ = os.WriteFile(filepath.Join(b, "x.json"), specBytes("vb.com/cls", 1), 0o644)
		cache, _ := cdi.NewCache(cdi.WithSpecDirs(b), cdi.WithAutoRefresh(true))
		if cache.GetDevice("vb.com/cls=dev") == nil || len(cache.GetErrors()) != 0 {
			report(Mismatch{What: "TOOL-precondition", Props: []string{"TOOL"}, Got: fmt.Sprint(cache.ListDevices(), cache.GetErrors())})
			return
		}
		var hold []*os.File
		_ = syscall.Getrlimit(syscall.RLIMIT_NOFILE, &old)
		lim := syscall.Rlimit{Cur: uint64(countResources().Fds + 40), Max: old.Max}
		_ = syscall.Setrlimit(syscall.RLIMIT_NOFILE, &lim)
		for {
			f, err := os.Open("/dev/null")
			if err != nil {
				break
			}
			hold = append(hold, f)
		}
		_ = cache.Configure(cdi.WithSpecDirs(b), cdi.WithAutoRefresh(true))
		during := fmt.Sprint(cache.ListDevices(), cache.GetErrors())
		for _, f := range hold {
			f.Close()
		}
		_ = syscall.Setrlimit(syscall.RLIMIT_NOFILE, &old)
		if cache.GetDevice("vb.com/cls=dev") == nil {
			report(Mismatch{What: "query-after-total-exhaustion-during-reconfiguration-is-stale", Want: "vb.com/cls=dev (a new cache with these options lists it)",
				Got: fmt.Sprint(cache.ListDevices(), cache.GetErrors()), Note: "during the exhaustion: " + during})
		}
		_ = cache.Configure(cdi.WithAutoRefresh(false))
	})
	if pan != nil {
		col.add(Mismatch{Props: []string{"C08", "C20"}, What: "panic", Got: fmt.Sprint(pan), Note: stack})
	}
	col.done([]byte(`{"scenario":"total descriptor exhaustion at a reconfiguration"}`), true, 2)
	// third scenario, the counter-example TLC gives for CacheAuto with FIX_RETRY = FALSE: the directory appears, the
	// descriptors run out, a file is written, a query adds the watch (that needs no descriptor) and cannot scan;
	// the shortage ends; nothing changes any more, yet queries have to show the file
	pan, stack, _ = guarded(60*time.Second, func() {
		c := filepath.Join(root, "c")
		cache, _ := cdi.NewCache(cdi.WithSpecDirs(c), cdi.WithAutoRefresh(true))
		_ = os.Mkdir(c, 0o755)
		var hold []*os.File
		_ = syscall.Getrlimit(syscall.RLIMIT_NOFILE, &old)
		lim := syscall.Rlimit{Cur: uint64(countResources().Fds + 40), Max: old.Max}
		_ = syscall.Setrlimit(syscall.RLIMIT_NOFILE, &lim)
		f0, _ := os.OpenFile(filepath.Join(c, "x.json"), os.O_CREATE|os.O_WRONLY, 0o644) // the writer is another process in reality
		for {
			f, err := os.Open("/dev/null")
			if err != nil {
				break
			}
			hold = append(hold, f)
		}
		if f0 != nil {
			_, _ = f0.Write(specBytes("vc.com/cls", 1))
			f0.Close()
			if g, err := os.Open("/dev/null"); err == nil { // take the descriptor the writer gave back
				hold = append(hold, g)
			}
		}
		during := fmt.Sprint(cache.ListDevices(), cache.GetErrors())
		for _, f := range hold {
			f.Close()
		}
		_ = syscall.Setrlimit(syscall.RLIMIT_NOFILE, &old)
		time.Sleep(50 * time.Millisecond)
		if cache.GetDevice("vc.com/cls=dev") == nil {
			report(Mismatch{What: "query-after-a-scan-that-ran-out-of-descriptors-is-stale", Want: "vc.com/cls=dev",
				Got: fmt.Sprint(cache.ListDevices(), cache.GetErrors()), Note: "during the exhaustion: " + during})
		}
		_ = cache.Configure(cdi.WithAutoRefresh(false))
	})
	if pan != nil {
		col.add(Mismatch{Props: []string{"C08", "C20"}, What: "panic", Got: fmt.Sprint(pan), Note: stack})
	}
	col.done([]byte(`{"scenario":"a query's scan runs out of descriptors"}`), true, 2)
	return col.finish(start)
}

// runSelf runs another sub-command of this binary and returns its Result.
func runSelf(args ...string) (*Result, error) {
	exe, _ := os.Executable()
	out, err := exec.Command(exe, args...).Output()
	lines := strings.Split(strings.TrimSpace(string(out)), "\n")
	var r Result
	if jerr := json.Unmarshal([]byte(lines[len(lines)-1]), &r); jerr != nil {
		return nil, fmt.Errorf("%v / %v: %s", err, jerr, out)
	}
	return &r, nil
}
