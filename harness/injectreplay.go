package main

// replay-inject: behaviours of spec/EditsInject.tla (a world of Spec files, then a history
// of injections and host-node changes) executed on a real Cache.

import (
	"encoding/json"
	"flag"
	"fmt"
	"os"
	"path/filepath"
	"sort"
	"strings"
	"time"

	"tags.cncf.io/container-device-interface/pkg/cdi"
	specs "tags.cncf.io/container-device-interface/specs-go"
)

func init() { register("replay-inject", replayInjectMain) }

type mFileDev struct {
	Name  string `json:"name"`
	Edits mEdits `json:"edits"`
}

type mFile struct {
	Dir  string     `json:"dir"`
	Name string     `json:"name"`
	Kind string     `json:"kind"`
	Spec mEdits     `json:"spec"`
	Devs []mFileDev `json:"devs"`
}

type mInjStep struct {
	Op   string               `json:"op"`
	Req  [][]string           `json:"req"`
	O0   mOci                 `json:"o0"`
	Host map[string]mHostNode `json:"host"`
	OK   bool                 `json:"ok"`
	Exp  mOciView             `json:"exp"`
}

type mInjRow struct {
	Dirs  []string   `json:"dirs"`
	Files []mFile    `json:"files"`
	Hist  []mInjStep `json:"hist"`
}

// cacheImage: everything the query API exposes about the cached Specs and devices.
func cacheImage(c *cdi.Cache) string {
	var parts []string
	for _, v := range c.ListVendors() {
		for _, sp := range c.GetVendorSpecs(v) {
			parts = append(parts, fmt.Sprintf("spec %s prio=%d %s", sp.GetPath(), sp.GetPriority(), jsonOf(sp.Spec)))
		}
	}
	for _, q := range c.ListDevices() {
		d := c.GetDevice(q)
		parts = append(parts, fmt.Sprintf("dev %s @%s %s", q, d.GetSpec().GetPath(), jsonOf(d.Device)))
	}
	sort.Strings(parts)
	return strings.Join(parts, "\n")
}

func replayInjectRow(idx int, line []byte, seed int64, col *collector) {
	var row mInjRow
	if err := json.Unmarshal(line, &row); err != nil {
		col.add(Mismatch{Case: idx, Step: -1, Props: []string{"TOOL"}, What: "bad-row", Note: err.Error()})
		return
	}
	w := &devWorld{root: mkScratch("inject")}
	defer os.RemoveAll(w.root)
	report := func(step int, ms ...Mismatch) {
		for _, m := range ms {
			m.Case, m.Step, m.Row = idx, step, json.RawMessage(line)
			col.add(m)
		}
	}
	dirPath := func(id string) string { return filepath.Join(w.root, "cdi", id) }
	for _, d := range row.Dirs {
		_ = os.MkdirAll(dirPath(d), 0o755)
	}
	for _, f := range row.Files {
		raw := &specs.Spec{Kind: kindName[f.Kind], ContainerEdits: *w.buildEdits(f.Spec)}
		devs := append([]mFileDev(nil), f.Devs...)
		sort.Slice(devs, func(i, j int) bool { return devs[i].Name < devs[j].Name })
		for _, d := range devs {
			raw.Devices = append(raw.Devices, specs.Device{Name: d.Name, ContainerEdits: *w.buildEdits(d.Edits)})
		}
		// the lowest version the content allows: a Spec that is later (wrongly) completed in
		// place would no longer be writable under it
		mv, _ := cdi.MinimumRequiredVersion(raw)
		raw.Version = mv
		b, _ := json.Marshal(raw)
		if err := os.WriteFile(filepath.Join(dirPath(f.Dir), f.Name), b, 0o644); err != nil {
			report(-1, Mismatch{Props: []string{"TOOL"}, What: "materialise", Note: err.Error()})
			return
		}
	}
	paths := []string{}
	for _, d := range row.Dirs {
		paths = append(paths, dirPath(d))
	}
	nontrivial := false
	pan, stack, hung := guarded(60*time.Second, func() {
		cache, _ := cdi.NewCache(cdi.WithSpecDirs(paths...), cdi.WithAutoRefresh(false))
		img0 := cacheImage(cache)
		ninj := 0
		for si, st := range row.Hist {
			if err := w.setHost(st.Host); err != nil {
				report(si, Mismatch{Props: []string{"TOOL"}, What: "materialise", Note: err.Error()})
				return
			}
			if st.Op != "inject" {
				continue
			}
			ninj++
			props := []string{"C02"}
			if ninj > 1 {
				props = []string{"C02", "C14"}
			}
			names := []string{}
			for _, q := range st.Req {
				names = append(names, kindName[q[0]]+"="+q[1])
			}
			if len(names) > 1 {
				nontrivial = true
			}
			spec := w.buildOCI(st.O0)
			before := w.ociView(spec)
			unresolved, err := cache.InjectDevices(spec, names...)
			if !st.OK {
				if err == nil {
					report(si, Mismatch{Props: props, What: "no-error-for-unusable-host-node", Want: "error", Got: "nil"})
				}
			} else if err != nil || len(unresolved) > 0 {
				report(si, Mismatch{Props: props, What: "inject-failed", Want: "success", Got: fmt.Sprint(unresolved, " ", err)})
			} else {
				ms := compareOci(props, st.Exp, w.ociView(spec), before, st.O0.Gids)
				for i := range ms {
					ms[i].Note = strings.Join(names, ", ")
				}
				report(si, ms...)
			}
			if img := cacheImage(cache); img != img0 {
				report(si, Mismatch{Props: []string{"C14"}, What: "cache-changed-by-injection", Want: img0, Got: img})
				img0 = img
			}
		}
		// C14: a cached Spec can still be written back unchanged
		for _, v := range cache.ListVendors() {
			for i, sp := range cache.GetVendorSpecs(v) {
				name := fmt.Sprintf("writeback-%s-%d.json", v, i)
				if err := cache.WriteSpec(sp.Spec, name); err != nil {
					report(len(row.Hist), Mismatch{Props: []string{"C14"}, What: "cached-spec-not-writable", Want: "success", Got: err.Error(), Note: sp.GetPath()})
				}
			}
		}
	})
	if pan != nil {
		report(-1, Mismatch{Props: []string{"C08", "C02", "C14"}, What: "panic", Got: fmt.Sprint(pan), Note: stack})
	}
	if hung {
		report(-1, Mismatch{Props: []string{"C08", "C02", "C14"}, What: "hang"})
	}
	col.done(line, nontrivial, len(row.Hist))
}

func replayInjectMain(args []string) int {
	fs := flag.NewFlagSet("replay-inject", flag.ExitOnError)
	var cf commonFlags
	addCommon(fs, &cf)
	_ = fs.Parse(args)
	start := time.Now()
	col := newCollector()
	if err := forEachCase(&cf, func(idx int, line []byte) { replayInjectRow(idx, line, cf.seed, col) }); err != nil {
		fmt.Fprintln(os.Stderr, err)
		return 2
	}
	return col.finish(start)
}
