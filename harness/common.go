package main

import (
	"bufio"
	"bytes"
	"crypto/sha1"
	"encoding/hex"
	"encoding/json"
	"flag"
	"fmt"
	"os"
	"path/filepath"
	"runtime"
	"runtime/debug"
	"sort"
	"strings"
	"sync"
	"time"
)

// Mismatch is one disagreement between the real code and the specification.
type Mismatch struct {
	Case  int             `json:"case"`           // index of the row in the cases file
	Step  int             `json:"step"`           // index of the step inside the behaviour (-1: whole case)
	Props []string        `json:"props"`          // properties for which this disagreement is a violation
	What  string          `json:"what"`           // short machine-readable tag, used to match known findings
	Want  interface{}     `json:"want,omitempty"` // what the specification says
	Got   interface{}     `json:"got,omitempty"`  // what the code did
	Row   json.RawMessage `json:"row,omitempty"`  // the case itself (for the replay file)
	Note  string          `json:"note,omitempty"`
}

// Result is what every sub-command prints as its last stdout line.
type Result struct {
	Evaluations int                    `json:"evaluations"`
	Nontrivial  int                    `json:"distinct_nontrivial"`
	Steps       int                    `json:"steps"`
	Mismatches  []Mismatch             `json:"mismatches"`
	NMismatch   int                    `json:"n_mismatch"`
	Samples     []json.RawMessage      `json:"samples"`
	Extra       map[string]interface{} `json:"extra,omitempty"`
	WallS       float64                `json:"wall_s"`
}

const (
	maxKeptMismatches = 3000
	maxKeptPerKind    = 25
)

type collector struct {
	mu      sync.Mutex
	res     Result
	seen    map[string]struct{}
	counter map[string]int
}

func newCollector() *collector {
	return &collector{seen: map[string]struct{}{}, counter: map[string]int{}, res: Result{Extra: map[string]interface{}{}}}
}

func (c *collector) add(m Mismatch) {
	c.mu.Lock()
	defer c.mu.Unlock()
	c.res.NMismatch++
	// keep a bounded number per kind of disagreement, so that a frequent one cannot crowd out a rare one
	k := "kept:" + m.What + ":" + strings.Join(m.Props, ",")
	if c.counter[k] < maxKeptPerKind && len(c.res.Mismatches) < maxKeptMismatches {
		c.counter[k]++
		c.res.Mismatches = append(c.res.Mismatches, m)
	}
}

func (c *collector) count(key string, n int) {
	c.mu.Lock()
	c.counter[key] += n
	c.mu.Unlock()
}

// done records one evaluated case; a case counts as distinct+non-trivial once per content hash.
func (c *collector) done(row []byte, nontrivial bool, steps int) {
	h := sha1.Sum(row)
	k := hex.EncodeToString(h[:8])
	c.mu.Lock()
	defer c.mu.Unlock()
	c.res.Evaluations++
	c.res.Steps += steps
	if _, dup := c.seen[k]; !dup {
		c.seen[k] = struct{}{}
		if nontrivial {
			c.res.Nontrivial++
			if len(c.res.Samples) < 3 && len(row) < 6000 {
				c.res.Samples = append(c.res.Samples, json.RawMessage(append([]byte(nil), row...)))
			}
		}
	}
}

func (c *collector) finish(start time.Time) int {
	c.res.WallS = time.Since(start).Seconds()
	for k, v := range c.counter {
		if !strings.HasPrefix(k, "kept:") {
			c.res.Extra[k] = v
		}
	}
	if c.res.Mismatches == nil {
		c.res.Mismatches = []Mismatch{}
	}
	if c.res.Samples == nil {
		c.res.Samples = []json.RawMessage{}
	}
	out, err := json.Marshal(c.res)
	if err != nil {
		fmt.Fprintln(os.Stderr, "cannot marshal result:", err)
		return 2
	}
	fmt.Println(string(out))
	if c.res.NMismatch > 0 {
		return 1
	}
	return 0
}

// common flags
type commonFlags struct {
	cases   string
	workers int
	seed    int64
	only    int
	limit   int
}

func addCommon(fs *flag.FlagSet, cf *commonFlags) {
	fs.StringVar(&cf.cases, "cases", "", "ndjson file of cases produced by TLC")
	fs.IntVar(&cf.workers, "workers", runtime.NumCPU(), "parallel workers")
	fs.Int64Var(&cf.seed, "seed", 1, "seed for concretisation choices")
	fs.IntVar(&cf.only, "only", -1, "run only this case index")
	fs.IntVar(&cf.limit, "limit", 0, "run at most this many cases (0 = all)")
}

// forEachCase feeds every line of the cases file to fn on a pool of workers.
func forEachCase(cf *commonFlags, fn func(idx int, line []byte)) error {
	f, err := os.Open(cf.cases)
	if err != nil {
		return err
	}
	defer f.Close()
	type job struct {
		idx  int
		line []byte
	}
	jobs := make(chan job, 256)
	var wg sync.WaitGroup
	for w := 0; w < cf.workers; w++ {
		wg.Add(1)
		go func() {
			defer wg.Done()
			for j := range jobs {
				fn(j.idx, j.line)
			}
		}()
	}
	sc := bufio.NewScanner(f)
	sc.Buffer(make([]byte, 1<<20), 1<<28)
	idx := 0
	n := 0
	for sc.Scan() {
		line := append([]byte(nil), sc.Bytes()...)
		if len(line) == 0 {
			continue
		}
		if cf.only < 0 || cf.only == idx {
			jobs <- job{idx, line}
			n++
		}
		idx++
		if cf.limit > 0 && n >= cf.limit {
			break
		}
	}
	close(jobs)
	wg.Wait()
	return sc.Err()
}

// guarded runs fn under recover() and a watchdog.  A panic or a stall in code under test
// is itself a finding (C08), whatever was being replayed.
func guarded(timeout time.Duration, fn func()) (panicked interface{}, stack string, hung bool) {
	done := make(chan struct{})
	go func() {
		defer func() {
			if r := recover(); r != nil {
				panicked = r
				stack = string(debug.Stack())
			}
			close(done)
		}()
		fn()
	}()
	select {
	case <-done:
		return
	case <-time.After(timeout):
		return nil, "", true
	}
}

func scratchRoot() string {
	if d := os.Getenv("VERIF_TMP"); d != "" {
		return d
	}
	if st, err := os.Stat("/dev/shm"); err == nil && st.IsDir() {
		return "/dev/shm"
	}
	return os.TempDir()
}

func mkScratch(prefix string) string {
	var err error
	// (a process that has given up root may not be allowed into the configured place)
	for _, root := range []string{scratchRoot(), "/dev/shm", os.TempDir(), "/tmp"} {
		var d string
		if d, err = os.MkdirTemp(root, "verif-"+prefix+"-"); err == nil {
			return d
		}
	}
	panic(err)
}

func sortedKeys(m map[string]struct{}) []string {
	out := make([]string, 0, len(m))
	for k := range m {
		out = append(out, k)
	}
	sort.Strings(out)
	return out
}

// escapeCtl spells DEL and the C1 controls of a JSON text as \u00XX (the same document, a spelling that
// YAML-based readers accept too): generated documents are about Spec content, not about raw control bytes
func escapeCtl(b []byte) []byte {
	if !bytes.ContainsAny(b, "\x7f\xc2") {
		return b
	}
	var out bytes.Buffer
	for _, r := range string(b) {
		if r >= 0x7f && r <= 0x9f {
			fmt.Fprintf(&out, "\\u%04x", r)
		} else {
			out.WriteRune(r)
		}
	}
	return out.Bytes()
}

func jsonOf(v interface{}) string {
	b, err := json.Marshal(v)
	if err != nil {
		return "<unmarshalable: " + err.Error() + ">"
	}
	return string(b)
}

// treeOf snapshots everything under root: relative path -> "type:size:sha1" (or link target).
func treeOf(root string) map[string]string {
	out := map[string]string{}
	_ = filepath.Walk(root, func(p string, info os.FileInfo, err error) error {
		if err != nil || info == nil {
			return nil
		}
		rel, _ := filepath.Rel(root, p)
		switch {
		case info.Mode()&os.ModeSymlink != 0:
			t, _ := os.Readlink(p)
			out[rel] = "link:" + t
		case info.IsDir():
			out[rel] = "dir"
		case info.Mode().IsRegular():
			data, _ := os.ReadFile(p)
			h := sha1.Sum(data)
			out[rel] = fmt.Sprintf("file:%d:%s", len(data), hex.EncodeToString(h[:6]))
		default:
			out[rel] = "other:" + info.Mode().String()
		}
		return nil
	})
	return out
}

func diffTrees(a, b map[string]string) (added, removed, changed []string) {
	for k, v := range b {
		if av, ok := a[k]; !ok {
			added = append(added, k)
		} else if av != v {
			changed = append(changed, k)
		}
	}
	for k := range a {
		if _, ok := b[k]; !ok {
			removed = append(removed, k)
		}
	}
	sort.Strings(added)
	sort.Strings(removed)
	sort.Strings(changed)
	return
}
