package main

// cli: C19.  The cdi and validate binaries (built from /repo's working tree) are run on the
// directory populations of spec/CacheSeq.tla; what they print and their exit status is
// compared with the library on the same directories and with the model's view.

import (
	"bytes"
	"encoding/json"
	"flag"
	"fmt"
	"os"
	"os/exec"
	"path/filepath"
	"reflect"
	"regexp"
	"sort"
	"strings"
	"time"

	oci "github.com/opencontainers/runtime-spec/specs-go"
	orderedyaml "gopkg.in/yaml.v3"
	"sigs.k8s.io/yaml"
	"tags.cncf.io/container-device-interface/pkg/cdi"
	"tags.cncf.io/container-device-interface/schema"
)

func init() { register("cli", cliMain) }

type cliRun struct {
	Out  string
	Code int
}

func runTool(bin string, args ...string) cliRun {
	cmd := exec.Command(bin, args...)
	var out bytes.Buffer
	cmd.Stdout, cmd.Stderr = &out, &out
	err := cmd.Run()
	code := 0
	if err != nil {
		if ee, ok := err.(*exec.ExitError); ok {
			code = ee.ExitCode()
		} else {
			code = -1
		}
	}
	return cliRun{out.String(), code}
}

var (
	reItem    = regexp.MustCompile(`(?m)^\s+\d+\. (\S+)\s*$`)
	reVendor  = regexp.MustCompile(`(?m)^\s+\d+\. "(.*)" \((\d+) CDI Spec Files\)\s*$`)
	reClass   = regexp.MustCompile(`(?m)^\s+\d+\. (\S+) \((\d+) vendors: (.*)\)\s*$`)
	reSpec    = regexp.MustCompile(`(?m)^\s*Spec File (\S+)\s*$`)
	reErrFile = regexp.MustCompile(`(?m)^Spec file (\S+):\s*$`)
)

func matches(re *regexp.Regexp, s string, group int) []string {
	out := []string{}
	for _, m := range re.FindAllStringSubmatch(s, -1) {
		out = append(out, m[group])
	}
	sort.Strings(out)
	return out
}

func sortedCopy(s []string) []string {
	out := append([]string{}, s...)
	sort.Strings(out)
	return out
}

// cliRow runs the row; what disagrees is run a second time and counts only if it disagrees again in the same
// way (a tool process that could not get an inotify instance or a descriptor on a busy machine is not a verdict)
func cliRow(idx int, line []byte, seed int64, cdiBin string, col *collector) {
	var first, second []Mismatch
	cliRowOnce(idx, line, seed, cdiBin, func(m Mismatch) { first = append(first, m) }, col.done)
	if len(first) == 0 {
		return
	}
	time.Sleep(200 * time.Millisecond)
	cliRowOnce(idx, line, seed, cdiBin, func(m Mismatch) { second = append(second, m) }, func([]byte, bool, int) {})
	for _, m := range first {
		again := false
		for _, n := range second {
			again = again || (n.What == m.What && n.Step == m.Step)
		}
		if again {
			col.add(m)
		} else {
			col.count("disagreements_not_reproduced", 1)
		}
	}
}

func cliRowOnce(idx int, line []byte, seed int64, cdiBin string, add func(Mismatch), done func([]byte, bool, int)) {
	var row mRow
	if err := json.Unmarshal(line, &row); err != nil {
		add(Mismatch{Case: idx, Step: -1, Props: []string{"TOOL"}, What: "bad-row", Note: err.Error()})
		return
	}
	w := &cacheWorld{root: mkScratch("cli")}
	defer os.RemoveAll(w.root)
	ids := make([]string, 0, len(row.Fs0))
	for id := range row.Fs0 {
		ids = append(ids, id)
	}
	sort.Strings(ids)
	for _, id := range ids {
		if err := w.setDir(id, row.Fs0[id]); err != nil {
			add(Mismatch{Case: idx, Step: -1, Props: []string{"TOOL"}, What: "materialise", Note: err.Error()})
			return
		}
	}
	if len(row.Dirs) == 0 {
		done(line, false, 0)
		return // without -d the tool reads the system directories
	}
	paths := make([]string, len(row.Dirs))
	for i, id := range row.Dirs {
		paths[i] = w.dirPath(id)
	}
	dflag := strings.Join(paths, ",")
	report := func(step int, m Mismatch) {
		m.Case, m.Step, m.Row, m.Props = idx, step, json.RawMessage(line), []string{"C19"}
		add(m)
	}
	// the library on the same directories, configured as the tool configures it
	lib, _ := cdi.NewCache(cdi.WithSpecDirs(paths...))
	defer func() { _ = lib.Configure(cdi.WithAutoRefresh(false)) }()
	libErrs := []string{}
	for p := range lib.GetErrors() {
		libErrs = append(libErrs, p)
	}
	sort.Strings(libErrs)
	libDevs := sortedCopy(lib.ListDevices())
	model := row.Hist[0].View
	// library vs model (sanity of the comparison itself)
	wantDevs := []string{}
	for _, d := range model.Devs {
		wantDevs = append(wantDevs, kindName[d.Kind]+"="+d.D)
	}
	sort.Strings(wantDevs)
	steps := 0
	v := runTool(cdiBin, "-d", dflag, "validate")
	steps++
	if (v.Code != 0) != (len(libErrs) > 0) {
		report(0, Mismatch{What: "validate-exit-status", Want: fmt.Sprintf("non-zero iff the library reports errors (%d)", len(libErrs)), Got: v.Code, Note: v.Out})
	}
	if got := matches(reErrFile, v.Out, 1); !reflect.DeepEqual(got, libErrs) && len(libErrs) > 0 {
		report(0, Mismatch{What: "files-in-error", Want: libErrs, Got: got, Note: v.Out})
	}
	if len(libErrs) > 0 {
		// with cache errors every sub-command reports them and fails
		d := runTool(cdiBin, "-d", dflag, "devices")
		steps++
		if d.Code == 0 {
			report(1, Mismatch{What: "exit-status-with-cache-errors", Want: "non-zero", Got: d.Code, Note: d.Out})
		}
		done(line, true, steps)
		return
	}
	d := runTool(cdiBin, "-d", dflag, "devices")
	steps++
	if got := matches(reItem, d.Out, 1); !reflect.DeepEqual(got, libDevs) || d.Code != 0 {
		report(1, Mismatch{What: "devices", Want: libDevs, Got: got, Note: d.Out})
	}
	if !reflect.DeepEqual(libDevs, wantDevs) {
		report(1, Mismatch{What: "library-differs-from-model", Want: wantDevs, Got: libDevs})
	}
	ve := runTool(cdiBin, "-d", dflag, "vendors")
	steps++
	if got := matches(reVendor, ve.Out, 1); !reflect.DeepEqual(got, sortedCopy(lib.ListVendors())) || ve.Code != 0 {
		report(2, Mismatch{What: "vendors", Want: lib.ListVendors(), Got: got, Note: ve.Out})
	}
	for _, m := range reVendor.FindAllStringSubmatch(ve.Out, -1) {
		if atoi(m[2]) != len(lib.GetVendorSpecs(m[1])) {
			report(2, Mismatch{What: "vendor-spec-count", Want: len(lib.GetVendorSpecs(m[1])), Got: m[2], Note: ve.Out})
		}
	}
	cl := runTool(cdiBin, "-d", dflag, "classes")
	steps++
	if got := matches(reClass, cl.Out, 1); !reflect.DeepEqual(got, sortedCopy(lib.ListClasses())) || cl.Code != 0 {
		report(3, Mismatch{What: "classes", Want: lib.ListClasses(), Got: got, Note: cl.Out})
	}
	sp := runTool(cdiBin, "-d", dflag, "specs")
	steps++
	wantSpecs := []string{}
	for _, vd := range lib.ListVendors() {
		for _, s := range lib.GetVendorSpecs(vd) {
			wantSpecs = append(wantSpecs, s.GetPath())
		}
	}
	sort.Strings(wantSpecs)
	if got := matches(reSpec, sp.Out, 1); !reflect.DeepEqual(got, wantSpecs) || sp.Code != 0 {
		report(4, Mismatch{What: "spec-files", Want: wantSpecs, Got: got, Note: sp.Out})
	}
	// inject: the printed OCI spec is the one library injection produces
	if len(libDevs) > 0 {
		ociFile := filepath.Join(w.root, "oci.json")
		ob, _ := json.Marshal(baseOCI())
		_ = os.WriteFile(ociFile, ob, 0o644)
		one := libDevs[int(seed+int64(idx))%len(libDevs)]
		// disjoint, single, and overlapping pattern sets (a device matched twice is injected once)
		patterns := [][]string{{"*/*"}, {one}, {"v1.com/*=x", "v2.org/*"}, {"*/*", one}, {one, one, "v?.*/*"}}
		pat := patterns[int(seed+int64(idx))%len(patterns)]
		for fi, format := range []string{"json", "yaml"} {
			in := runTool(cdiBin, append([]string{"-d", dflag, "inject", "-o", format, ociFile}, pat...)...)
			steps++
			want := baseOCI()
			var sel []string
			for _, q := range libDevs {
				for _, g := range pat {
					if ok, _ := filepath.Match(g, q); ok {
						sel = append(sel, q)
						break
					}
				}
			}
			_, ierr := lib.InjectDevices(want, sel...)
			i := strings.Index(in.Out, "Updated OCI Spec:\n")
			if ierr != nil || i < 0 || in.Code != 0 {
				if (ierr != nil) != (in.Code != 0) {
					report(5+fi, Mismatch{What: "inject-status", Want: fmt.Sprint(ierr), Got: in.Code, Note: in.Out})
				}
				continue
			}
			var body strings.Builder
			for _, l := range strings.Split(in.Out[i+len("Updated OCI Spec:\n"):], "\n") {
				body.WriteString(strings.TrimPrefix(l, "  ") + "\n")
			}
			got := &oci.Spec{}
			var derr error
			if format == "json" {
				derr = json.Unmarshal([]byte(body.String()), got)
			} else {
				derr = orderedyaml.Unmarshal([]byte(body.String()), got)
			}
			if derr != nil || jsonOf(got) != jsonOf(want) {
				report(5+fi, Mismatch{What: "inject-output", Want: jsonOf(want), Got: fmt.Sprint(jsonOf(got), " ", derr), Note: strings.Join(pat, " ") + "\n" + in.Out})
			}
		}
	}
	done(line, len(libDevs) > 0, steps)
}

func cliMain(args []string) int {
	fs := flag.NewFlagSet("cli", flag.ExitOnError)
	var cf commonFlags
	addCommon(fs, &cf)
	cdiBin := fs.String("cdi", "", "cdi binary")
	valBin := fs.String("validate", "", "validate binary")
	docs := fs.String("docs", "", "documents (ndjson with doc, valid) for the validate tool")
	repo := fs.String("repo", "/repo", "repository")
	_ = fs.Parse(args)
	start := time.Now()
	col := newCollector()
	cdi.SetSpecValidator(schema.BuiltinSchema()) // as the tool does
	if cf.workers > 8 {
		cf.workers = 8 // one inotify instance per library cache and per tool process
	}
	if err := forEachCase(&cf, func(idx int, line []byte) { cliRow(idx, line, cf.seed, *cdiBin, col) }); err != nil {
		fmt.Fprintln(os.Stderr, err)
		return 2
	}
	// the validate tool: exit status non-zero iff schema validation of the document fails
	if *docs != "" {
		ext := mkScratch("cli-schema")
		defer os.RemoveAll(ext)
		for _, f := range []string{"schema.json", "defs.json"} {
			b, _ := os.ReadFile(filepath.Join(*repo, "schema", f))
			_ = os.WriteFile(filepath.Join(ext, f), b, 0o644)
		}
		external, _ := schema.Load(filepath.Join(ext, "schema.json"))
		builtin := schema.BuiltinSchema()
		none, _ := schema.Load("none")
		dcf := commonFlags{cases: *docs, workers: cf.workers, only: -1, limit: cf.limit}
		_ = forEachCase(&dcf, func(idx int, line []byte) {
			var row schemaDoc
			if json.Unmarshal(line, &row) != nil {
				return
			}
			dir := mkScratch("cli-doc")
			defer os.RemoveAll(dir)
			jf := filepath.Join(dir, "doc.json")
			_ = os.WriteFile(jf, row.Doc, 0o644)
			for si, sc := range []struct {
				name string
				s    *schema.Schema
			}{{"builtin", builtin}, {"none", none}, {filepath.Join(ext, "schema.json"), external}, {"", builtin}} { // an empty name: the builtin schema
				want := sc.s.ValidateFile(jf) == nil
				r := runTool(*valBin, "--schema", sc.name, jf)
				if (r.Code == 0) != want {
					col.add(Mismatch{Case: idx, Step: si, Props: []string{"C19"}, What: "validate-tool-exit-status", Want: fmt.Sprintf("0 iff the library accepts (%v)", want), Got: r.Code,
						Note: sc.name + "\n" + r.Out, Row: json.RawMessage(line)})
				}
				// and through stdin
				cmd := exec.Command(*valBin, "--schema", sc.name)
				cmd.Stdin = bytes.NewReader(row.Doc)
				err := cmd.Run()
				if (err == nil) != (sc.s.ValidateData(row.Doc) == nil) {
					col.add(Mismatch{Case: idx, Step: si, Props: []string{"C19"}, What: "validate-tool-exit-status-stdin", Want: sc.s.ValidateData(row.Doc) == nil, Got: fmt.Sprint(err), Note: sc.name, Row: json.RawMessage(line)})
				}
			}
			// the YAML encoding of the same document: as a file and through stdin
			if yb, yerr := yaml.JSONToYAML(row.Doc); yerr == nil {
				yf := filepath.Join(dir, "doc.yaml")
				_ = os.WriteFile(yf, yb, 0o644)
				want := builtin.ValidateFile(yf) == nil
				if r := runTool(*valBin, "--schema", "builtin", yf); (r.Code == 0) != want {
					col.add(Mismatch{Case: idx, Step: 3, Props: []string{"C19"}, What: "validate-tool-exit-status", Want: fmt.Sprintf("0 iff the library accepts (%v)", want), Got: r.Code,
						Note: "builtin, YAML file\n" + r.Out, Row: json.RawMessage(line)})
				}
				for _, dash := range [][]string{{}, {"-"}} {
					cmd := exec.Command(*valBin, append([]string{"--schema", "builtin"}, dash...)...)
					cmd.Stdin = bytes.NewReader(yb)
					err := cmd.Run()
					if (err == nil) != (builtin.ValidateData(yb) == nil) {
						col.add(Mismatch{Case: idx, Step: 4, Props: []string{"C19"}, What: "validate-tool-exit-status-stdin", Want: builtin.ValidateData(yb) == nil, Got: fmt.Sprint(err),
							Note: fmt.Sprint("builtin, YAML through stdin ", dash), Row: json.RawMessage(line)})
					}
				}
			}
			col.count("validate_tool_documents", 1)
			col.done(line, true, 6)
		})
	}
	return col.finish(start)
}
