package main

// writer: C10.  Scenarios around Cache.WriteSpec on a real file system:
//   pause   - at every write.* observation point (hooks) the directory is listed, read and
//             scanned by a real cache: every Spec-named entry must be a complete old or new file
//   crash   - a child process kills itself (SIGKILL) at each point; the parent scans the remains
//   fsize   - a child with RLIMIT_FSIZE = k: the write fails at offset k (every k for a small Spec)
//   strace  - a child under strace; the system-call trace is validated by TLC against spec/FSTrace.tla
//   stress  - a writer loop against reader loops for a while
// write-child is the child process of the crash/fsize/strace scenarios.

import (
	"bytes"
	"encoding/json"
	"flag"
	"fmt"
	"os"
	"os/exec"
	"os/signal"
	"path/filepath"
	"strings"
	"sync"
	"sync/atomic"
	"syscall"
	"time"

	"tags.cncf.io/container-device-interface/pkg/cdi"
	specs "tags.cncf.io/container-device-interface/specs-go"
)

func init() {
	register("writer", writerMain)
	register("write-child", writeChildMain)
}

const writerKind = "v1.com/cls"

func writerSpec(v int, pad int) *specs.Spec {
	return &specs.Spec{Version: "0.3.0", Kind: writerKind, Devices: []specs.Device{{Name: "dev",
		ContainerEdits: specs.ContainerEdits{Env: []string{fmt.Sprintf("V=%d", v), "PAD=" + strings.Repeat("x", pad)}}}}}
}

// referenceBytes: what an undisturbed WriteSpec produces for (version, encoding).
func referenceBytes(v, pad int, name string) ([]byte, error) {
	d := mkScratch("ref")
	defer os.RemoveAll(d)
	c, _ := cdi.NewCache(cdi.WithSpecDirs(d), cdi.WithAutoRefresh(false))
	if err := c.WriteSpec(writerSpec(v, pad), name); err != nil {
		return nil, err
	}
	return os.ReadFile(filepath.Join(d, name))
}

func isSpecName(n string) bool { return strings.HasSuffix(n, ".json") || strings.HasSuffix(n, ".yaml") }

// inspectDir is the reader's side of C10: list, read, scan.  allowed = complete contents a
// Spec-named entry may have.
func inspectDir(dir string, allowed [][]byte, where string) []Mismatch {
	var out []Mismatch
	ents, err := os.ReadDir(dir)
	if err != nil {
		if os.IsNotExist(err) {
			return nil
		}
		return []Mismatch{{Props: []string{"TOOL"}, What: "readdir", Note: err.Error()}}
	}
	for _, e := range ents {
		if !isSpecName(e.Name()) {
			continue
		}
		data, err := os.ReadFile(filepath.Join(dir, e.Name()))
		if err != nil {
			if os.IsNotExist(err) {
				continue
			}
			out = append(out, Mismatch{Props: []string{"C10"}, What: "spec-named-entry-unreadable", Got: err.Error(), Note: where + ": " + e.Name()})
			continue
		}
		ok := false
		for _, a := range allowed {
			if bytes.Equal(a, data) {
				ok = true
			}
		}
		if !ok {
			out = append(out, Mismatch{Props: []string{"C10"}, What: "partial-or-foreign-content-under-spec-name",
				Want: "complete previous or complete new content", Got: fmt.Sprintf("%s: %d bytes %q", e.Name(), len(data), firstBytes(data, 60)), Note: where})
		}
	}
	// what a cache sees
	c, _ := cdi.NewCache(cdi.WithSpecDirs(dir), cdi.WithAutoRefresh(false))
	for p, errs := range c.GetErrors() {
		out = append(out, Mismatch{Props: []string{"C10"}, What: "scan-finds-unloadable-spec-file", Got: fmt.Sprint(p, ": ", errs), Note: where})
	}
	return out
}

// oldAsLink: the previous file of the next prepared directory is a symbolic link to a file outside it
var oldAsLink bool

type writeScenario struct {
	Variant string `json:"variant,omitempty"`
	Name    string `json:"name"`
	Enc     string `json:"enc"`
	HasOld  bool   `json:"has_old"`
	Pad     int    `json:"pad"`
	Mode    string `json:"mode"`
	Point   string `json:"point,omitempty"`
	FSize   int    `json:"fsize,omitempty"`
	Outcome string `json:"outcome,omitempty"`
}

var writePoints = []string{"write.begin", "write.mkdir", "write.created", "write.written", "write.closed", "write.renamed", "write.done"}

func prepareDir(hasOld bool, pad int, name string) (string, [][]byte, error) {
	dir := filepath.Join(mkScratch("write"), "cdi")
	oldB, err := referenceBytes(1, pad, name)
	if err != nil {
		return "", nil, err
	}
	newB, err := referenceBytes(2, pad, name)
	if err != nil {
		return "", nil, err
	}
	if hasOld {
		if err := os.MkdirAll(dir, 0o755); err != nil {
			return "", nil, err
		}
		target := filepath.Join(dir, name)
		if oldAsLink {
			target = filepath.Join(filepath.Dir(dir), "elsewhere-"+name)
			if err := os.Symlink(target, filepath.Join(dir, name)); err != nil {
				return "", nil, err
			}
		}
		if err := os.WriteFile(target, oldB, 0o644); err != nil {
			return "", nil, err
		}
		return dir, [][]byte{oldB, newB}, nil
	}
	return dir, [][]byte{newB}, nil
}

func runChild(args []string, straceOut string) (int, string) {
	exe, _ := os.Executable()
	var cmd *exec.Cmd
	if straceOut != "" {
		a := append([]string{"-f", "-y", "-s", "0", "-e", "trace=openat,open,creat,write,pwrite64,writev,close,rename,renameat,renameat2,unlink,unlinkat,link,linkat,mkdir,mkdirat,ftruncate,truncate",
			"-o", straceOut, exe, "write-child"}, args...)
		cmd = exec.Command("strace", a...)
	} else {
		cmd = exec.Command(exe, append([]string{"write-child"}, args...)...)
	}
	var buf bytes.Buffer
	cmd.Stdout, cmd.Stderr = &buf, &buf
	err := cmd.Run()
	code := 0
	if err != nil {
		if ee, ok := err.(*exec.ExitError); ok {
			code = ee.ExitCode()
			if ws, ok := ee.Sys().(syscall.WaitStatus); ok && ws.Signaled() {
				code = 128 + int(ws.Signal())
			}
		} else {
			code = -1
		}
	}
	return code, buf.String()
}

func writerMain(args []string) int {
	fs := flag.NewFlagSet("writer", flag.ExitOnError)
	seed := fs.Int64("seed", 1, "seed")
	tier := fs.String("tier", "quick", "quick|thorough")
	straceDir := fs.String("strace-dir", "", "directory receiving raw strace outputs + index.json")
	stress := fs.Duration("stress", 3*time.Second, "duration of the concurrent stress")
	_ = fs.Parse(args)
	start := time.Now()
	col := newCollector()
	thorough := *tier == "thorough"
	report := func(sc writeScenario, ms ...Mismatch) {
		row, _ := json.Marshal(sc)
		for _, m := range ms {
			m.Row = row
			col.add(m)
		}
	}
	type straceRec struct {
		File   string        `json:"file"`
		Dir    string        `json:"dir"`
		NewLen int           `json:"newlen"`
		OldLen int           `json:"oldlen"`
		Target string        `json:"target"`
		Sc     writeScenario `json:"scenario"`
	}
	var straces []straceRec
	pads := []int{0}
	if thorough {
		pads = []int{0, 5000, 70000}
	}
	nsc := 0
	hooksSeen := false
	// variants: an ordinary name; the previous file is a symbolic link to a file elsewhere; a name with a '*'
	// (legal, and special to os.CreateTemp patterns)
	for _, variant := range []string{"plain", "link", "star"} {
		for _, enc := range []string{"json", "yaml"} {
			for _, hasOld := range []bool{false, true} {
				for _, pad := range pads {
					if (variant == "link" && !hasOld) || (variant != "plain" && pad != 0) {
						continue
					}
					oldAsLink = variant == "link"
					name := "x." + enc
					if variant == "star" {
						name = "s*r." + enc
					}
					base := writeScenario{Name: name, Enc: enc, HasOld: hasOld, Pad: pad, Variant: variant}
					d0, allowed, err := prepareDir(hasOld, pad, name)
					if d0 != "" {
						os.RemoveAll(filepath.Dir(d0)) // only the reference contents are wanted here
					}
					if err != nil {
						report(base, Mismatch{Props: []string{"TOOL"}, What: "prepare", Note: err.Error()})
						continue
					}
					newLen := len(allowed[len(allowed)-1])
					// --- pause: in-process, hooks observe at every point
					{
						sc := base
						sc.Mode = "pause"
						dir, allowed, _ := prepareDir(hasOld, pad, name)
						var ms []Mismatch
						seen := map[string]bool{}
						cdi.VerifHook = func(point string, a ...interface{}) {
							if strings.HasPrefix(point, "write.") {
								seen[point] = true
								ms = append(ms, inspectDir(dir, allowed, "paused at "+point)...)
							}
						}
						c, _ := cdi.NewCache(cdi.WithSpecDirs(dir), cdi.WithAutoRefresh(false))
						pan, stack, _ := guarded(60*time.Second, func() {
							if err := c.WriteSpec(writerSpec(2, pad), name); err != nil {
								ms = append(ms, Mismatch{Props: []string{"C10"}, What: "undisturbed-write-failed", Got: err.Error()})
							}
						})
						cdi.VerifHook = nil
						if pan != nil {
							ms = append(ms, Mismatch{Props: []string{"C08", "C10"}, What: "panic", Got: fmt.Sprint(pan), Note: stack})
						}
						col.count("hook_points_seen", len(seen))
						if len(seen) == 0 {
							// a write path without observation points: the other modes (kill, failing write) still see it
							col.count("writes_without_observation_points", 1)
						} else {
							hooksSeen = true
						}
						ms = append(ms, inspectDir(dir, allowed[len(allowed)-1:], "after a successful write")...)
						report(sc, ms...)
						os.RemoveAll(filepath.Dir(dir))
						nsc++
						col.done([]byte(jsonOf(sc)), true, len(seen))
					}
					// --- crash: the writer is killed at each point
					for _, pt := range writePoints {
						sc := base
						sc.Mode, sc.Point = "crash", pt
						dir, allowed, _ := prepareDir(hasOld, pad, name)
						code, out := runChild([]string{"-dir", dir, "-name", name, "-v", "2", "-pad", fmt.Sprint(pad), "-crash", pt}, "")
						sc.Outcome = fmt.Sprint("exit ", code)
						switch code {
						case 128 + 9:
							report(sc, inspectDir(dir, allowed, "after SIGKILL at "+pt)...)
						case 0:
							// this writer never reaches that point (another protocol): it ran to completion
							col.count("crash_points_not_reached", 1)
							report(sc, inspectDir(dir, allowed[len(allowed)-1:], "after a complete write (point "+pt+" not reached)")...)
						default:
							report(sc, Mismatch{Props: []string{"TOOL"}, What: "child-failed", Got: code, Note: out})
						}
						os.RemoveAll(filepath.Dir(dir))
						nsc++
						col.done([]byte(jsonOf(sc)), true, 1)
					}
					// --- fsize: the write fails at offset k
					offsets := []int{}
					if newLen <= 400 && (thorough || true) {
						step := 1
						if !thorough {
							step = 7
						}
						for k := 0; k < newLen; k += step {
							offsets = append(offsets, k)
						}
						offsets = append(offsets, newLen-1)
					} else {
						for i := 0; i < 12; i++ {
							offsets = append(offsets, int((*seed*7919+int64(i)*104729)%int64(newLen)))
						}
						offsets = append(offsets, 0, 1, 4095, 4096, 4097, newLen-1)
					}
					for _, k := range offsets {
						if k < 0 || k >= newLen {
							continue
						}
						sc := base
						sc.Mode, sc.FSize = "fsize", k
						dir, allowed, _ := prepareDir(hasOld, pad, name)
						if !hasOld {
							_ = os.MkdirAll(dir, 0o755)
						}
						code, out := runChild([]string{"-dir", dir, "-name", name, "-v", "2", "-pad", fmt.Sprint(pad), "-fsize", fmt.Sprint(k)}, "")
						sc.Outcome = fmt.Sprint("exit ", code)
						switch code {
						case 3: // WriteSpec returned an error: only the previous content may be visible
							report(sc, inspectDir(dir, allowed[:len(allowed)-1], fmt.Sprintf("after a write that failed at offset %d", k))...)
						case 0:
							// a write that reports success although the file could not be written completely
							report(sc, inspectDir(dir, allowed[len(allowed)-1:], fmt.Sprintf("after a write reported successful under a %d byte limit", k))...)
						default:
							report(sc, Mismatch{Props: []string{"TOOL"}, What: "child-failed", Got: code, Note: out})
						}
						os.RemoveAll(filepath.Dir(dir))
						nsc++
						col.done([]byte(jsonOf(sc)), true, 1)
					}
					// --- follow-up: after an interrupted or failed write of a LONGER content, a complete write of a
					// shorter one must publish exactly the shorter one (nothing left over may leak into it)
					{
						bigPad := pad + 300
						shortB, err1 := referenceBytes(3, pad, name)
						bigB, err2 := referenceBytes(4, bigPad, name)
						if err1 != nil || err2 != nil {
							report(base, Mismatch{Props: []string{"TOOL"}, What: "prepare", Note: fmt.Sprint(err1, err2)})
						} else {
							type first struct {
								mode string
								args []string
							}
							firsts := []first{}
							for _, pt := range writePoints {
								firsts = append(firsts, first{"crash at " + pt, []string{"-crash", pt}})
							}
							for _, k := range []int{len(shortB) + 20, len(bigB) / 2, len(bigB) - 1} {
								firsts = append(firsts, first{fmt.Sprintf("write failing at offset %d", k), []string{"-fsize", fmt.Sprint(k)}})
							}
							for _, f := range firsts {
								sc := base
								sc.Mode, sc.Point = "followup", f.mode
								dir, _, _ := prepareDir(hasOld, pad, name)
								if !hasOld {
									_ = os.MkdirAll(dir, 0o755)
								}
								code1, out1 := runChild(append([]string{"-dir", dir, "-name", name, "-v", "4", "-pad", fmt.Sprint(bigPad)}, f.args...), "")
								code2, out2 := runChild([]string{"-dir", dir, "-name", name, "-v", "3", "-pad", fmt.Sprint(pad)}, "")
								sc.Outcome = fmt.Sprint("exit ", code1, " then exit ", code2)
								switch {
								case code1 != 0 && code1 != 3 && code1 != 128+9:
									report(sc, Mismatch{Props: []string{"TOOL"}, What: "child-failed", Got: code1, Note: out1})
								case code2 != 0:
									report(sc, Mismatch{Props: []string{"C10"}, What: "write-after-interrupted-write-failed", Got: code2, Note: out2})
								default:
									report(sc, inspectDir(dir, [][]byte{shortB}, "after a complete write that followed a "+f.mode+" of a longer content")...)
								}
								os.RemoveAll(filepath.Dir(dir))
								nsc++
								col.done([]byte(jsonOf(sc)), true, 2)
							}
						}
					}
					// --- strace: normal run and two failing ones, validated by TLC afterwards
					if *straceDir != "" && variant == "plain" {
						for i, k := range []int{-1, newLen / 2, 0} {
							sc := base
							sc.Mode, sc.FSize = "strace", k
							dir, allowed, _ := prepareDir(hasOld, pad, name)
							if !hasOld {
								_ = os.MkdirAll(dir, 0o755)
							}
							out := filepath.Join(*straceDir, fmt.Sprintf("trace-%s-%v-%d-%d.txt", enc, hasOld, pad, i))
							a := []string{"-dir", dir, "-name", name, "-v", "2", "-pad", fmt.Sprint(pad)}
							if k >= 0 {
								a = append(a, "-fsize", fmt.Sprint(k))
							}
							code, cout := runChild(a, out)
							sc.Outcome = fmt.Sprint("exit ", code)
							if code != 0 && code != 3 {
								report(sc, Mismatch{Props: []string{"TOOL"}, What: "straced-child-failed", Got: code, Note: cout})
							}
							oldLen := 0
							if hasOld {
								oldLen = len(allowed[0])
							}
							straces = append(straces, straceRec{File: out, Dir: dir, NewLen: newLen, OldLen: oldLen, Target: name, Sc: sc})
							os.RemoveAll(filepath.Dir(dir))
							nsc++
							col.done([]byte(jsonOf(sc)), true, 1)
						}
					}
				}
			}
		}
	}
	oldAsLink = false
	if !hooksSeen {
		report(writeScenario{Mode: "pause"}, Mismatch{Props: []string{"TOOL"}, What: "no-write-hook-fired", Note: "harness not built with -tags verif, or the hooks were removed"})
	}
	// --- stress: one writer alternating two contents, readers in parallel
	{
		sc := writeScenario{Name: "x.json", Enc: "json", HasOld: true, Mode: "stress"}
		dir, allowed, _ := prepareDir(true, 300, "x.json")
		var stop int32
		var wg sync.WaitGroup
		var mu sync.Mutex
		var ms []Mismatch
		var reads, writes int64
		c, _ := cdi.NewCache(cdi.WithSpecDirs(dir), cdi.WithAutoRefresh(false))
		wg.Add(1)
		go func() {
			defer wg.Done()
			for v := 1; atomic.LoadInt32(&stop) == 0; v = 3 - v {
				if err := c.WriteSpec(writerSpec(v, 300), "x.json"); err != nil {
					mu.Lock()
					ms = append(ms, Mismatch{Props: []string{"C10"}, What: "write-failed-under-stress", Got: err.Error()})
					mu.Unlock()
				}
				atomic.AddInt64(&writes, 1)
			}
		}()
		for r := 0; r < 6; r++ {
			wg.Add(1)
			go func() {
				defer wg.Done()
				for atomic.LoadInt32(&stop) == 0 {
					got := inspectDir(dir, allowed, "concurrent reader")
					atomic.AddInt64(&reads, 1)
					if len(got) > 0 {
						mu.Lock()
						if len(ms) < 20 {
							ms = append(ms, got...)
						}
						mu.Unlock()
					}
				}
			}()
		}
		time.Sleep(*stress)
		atomic.StoreInt32(&stop, 1)
		wg.Wait()
		col.count("stress_reads", int(reads))
		col.count("stress_writes", int(writes))
		report(sc, ms...)
		os.RemoveAll(filepath.Dir(dir))
		col.done([]byte(jsonOf(sc)), true, int(reads))
	}
	if *straceDir != "" {
		b, _ := json.Marshal(straces)
		_ = os.WriteFile(filepath.Join(*straceDir, "index.json"), b, 0o644)
	}
	col.count("scenarios", nsc)
	return col.finish(start)
}

func writeChildMain(args []string) int {
	fs := flag.NewFlagSet("write-child", flag.ExitOnError)
	dir := fs.String("dir", "", "Spec directory")
	name := fs.String("name", "x.json", "file name")
	v := fs.Int("v", 2, "content version")
	pad := fs.Int("pad", 0, "padding")
	crash := fs.String("crash", "", "kill -9 self at this observation point")
	fsize := fs.Int("fsize", -1, "RLIMIT_FSIZE")
	_ = fs.Parse(args)
	if *crash != "" {
		cdi.VerifHook = func(point string, a ...interface{}) {
			if point == *crash {
				_ = syscall.Kill(os.Getpid(), syscall.SIGKILL)
				time.Sleep(10 * time.Second)
			}
		}
	}
	c, _ := cdi.NewCache(cdi.WithSpecDirs(*dir), cdi.WithAutoRefresh(false))
	if *fsize >= 0 {
		signal.Ignore(syscall.SIGXFSZ)
		lim := syscall.Rlimit{Cur: uint64(*fsize), Max: uint64(*fsize)}
		if err := syscall.Setrlimit(syscall.RLIMIT_FSIZE, &lim); err != nil {
			return 4
		}
	}
	if err := c.WriteSpec(writerSpec(*v, *pad), *name); err != nil {
		return 3
	}
	return 0
}
