package main

// replay-auto: behaviours of spec/CacheAuto.tla executed on a real auto-refresh Cache over
// real directories and real inotify.  File-system operations, queries and Configure calls
// are performed as recorded; the watcher goroutine is paced through the watch.prelock hook
// (a blocking gate): free-running, following the recorded schedule, or held until the
// history has ended.  Afterwards the cache is polled through its query API until it equals
// a cache freshly built on the final directories.

import (
	"encoding/json"
	"flag"
	"fmt"
	"math/rand"
	"os"
	"path/filepath"
	"reflect"
	"runtime"
	"sort"
	"strings"
	"sync"
	"sync/atomic"
	"time"

	oci "github.com/opencontainers/runtime-spec/specs-go"
	"tags.cncf.io/container-device-interface/pkg/cdi"
)

func init() { register("replay-auto", replayAutoMain) }

type autoAct struct {
	A  string   `json:"a"`
	D  string   `json:"d"`
	N  string   `json:"n"`
	C  int      `json:"c"`
	W  int      `json:"w"`
	Nd []string `json:"nd"`
	Na bool     `json:"na"`
	Ex []string `json:"ex"`
}

type autoRow struct {
	Hist    []autoAct      `json:"hist"`
	Cdirs   []string       `json:"cdirs"`
	Auto    bool           `json:"auto"`
	Fresh   map[string]int `json:"fresh"`
	Missing []string       `json:"missing"`
}

// ---- the gate in front of the watcher goroutine's critical section

type gate struct {
	closed  int32
	waiting int32
	handled int32
	tokens  chan struct{}
	// inside the watcher's critical section: after the watch update ("inner") and after the rescan
	// ("tail"), so that file-system operations can be placed between the two halves and before the unlock
	holdInner, holdTail int32
	atInner, atTail     int32
	exits               int32
	handlerGoid         int64
	inner, tail         chan struct{}
}

var gates sync.Map // *sync.Mutex -> *gate
var hookOnce sync.Once

// autoRecorder collects, in one total order, the file-system operations the harness performs
// (logged under the cache lock, before the system call) and what the hooks observe in the
// cache: events reaching the watcher goroutine, and snapshots of the state at the beginning of
// every critical section and at the end of the watcher's and Configure's.  The trace is
// validated by TLC against spec/CacheAutoTrace.tla.
type autoRecorder struct {
	mu      sync.Mutex
	events  []map[string]interface{}
	w       *autoWorld
	stopped bool
	nstart  int
	gor     map[int64]int // goroutine id -> index of the watcher it was started with
	handler int64         // goroutine id of the watcher goroutine inside its critical section
}

var recorders sync.Map // *sync.Mutex -> *autoRecorder
var recCaches sync.Map // *sync.Mutex -> *cdi.Cache

func goid() int64 {
	buf := make([]byte, 64)
	n := runtime.Stack(buf, false)
	var id int64
	fmt.Sscanf(string(buf[:n]), "goroutine %d ", &id)
	return id
}

func (r *autoRecorder) log(ev map[string]interface{}) {
	r.mu.Lock()
	if !r.stopped {
		r.events = append(r.events, ev)
	}
	r.mu.Unlock()
}

func (r *autoRecorder) dirID(p string) (string, string) { return r.w.locate(p) }

func (r *autoRecorder) snapshot(c *cdi.Cache) map[string]interface{} {
	ix := cdi.VerifIndex(c)
	tracked := map[string]string{"A": "no", "B": "no", "C": "no"}
	for p, ok := range ix["tracked"].(map[string]bool) {
		if d, n := r.dirID(p); n == "." {
			tracked[d] = map[bool]string{true: "t", false: "f"}[ok]
		}
	}
	errs := []string{}
	for _, p := range ix["dirErrors"].([]string) {
		if d, n := r.dirID(p); n == "." {
			errs = append(errs, d)
		}
	}
	sort.Strings(errs)
	idx := map[string]int{"A": 0, "B": 0, "C": 0}
	for q, v := range ix["devices"].(map[string]interface{}) {
		env, _ := v.(map[string]interface{})["env"].([]string)
		for _, d := range []string{"A", "B", "C"} {
			if q == autoKind(d)+"=dev" {
				idx[d] = atoi(envVal(env, "V"))
			}
		}
	}
	return map[string]interface{}{"tracked": tracked, "errs": errs, "idx": idx, "auto": ix["autoRefresh"], "watcher": ix["watcher"]}
}

func opKind(s string) string {
	switch {
	case strings.Contains(s, "REMOVE"):
		return "remove"
	case strings.Contains(s, "RENAME"):
		return "rename"
	case strings.Contains(s, "WRITE"):
		return "write"
	case strings.Contains(s, "CREATE"):
		return "create"
	}
	return strings.ToLower(s)
}

func recordHook(point string, a []interface{}) {
	var key *sync.Mutex
	var cache *cdi.Cache
	switch v := a[0].(type) {
	case *sync.Mutex:
		key = v
	case *cdi.Cache:
		key, cache = &v.Mutex, v
	}
	rv, ok := recorders.Load(key)
	if !ok {
		return
	}
	r := rv.(*autoRecorder)
	switch point {
	case "watch.start":
		// the model numbers watchers (and their goroutines) by configuration
		r.mu.Lock()
		r.gor[goid()] = r.nstart
		r.mu.Unlock()
	case "watch.prelock":
		r.mu.Lock()
		w := r.gor[goid()]
		r.mu.Unlock()
		d, n := r.dirID(a[1].(string))
		r.log(map[string]interface{}{"ev": "recv", "w": w, "d": d, "n": n, "op": opKind(a[2].(string))})
	case "watch.updated":
		r.mu.Lock()
		w := r.gor[goid()]
		r.handler = goid()
		r.mu.Unlock()
		if c, ok := recCaches.Load(key); ok {
			r.log(map[string]interface{}{"ev": "updated", "w": w, "st": r.snapshot(c.(*cdi.Cache))})
		}
	case "watch.locked":
		r.mu.Lock()
		r.handler = goid()
		r.mu.Unlock()
	case "refresh.done":
		// the rescan of the watcher goroutine (queries and Configure log their own entries)
		r.mu.Lock()
		w, mine := r.gor[goid()], r.handler == goid()
		r.mu.Unlock()
		if mine {
			r.log(map[string]interface{}{"ev": "scanned", "w": w, "st": r.snapshot(cache)})
		}
	case "watch.handled":
		r.mu.Lock()
		w := r.gor[goid()]
		r.handler = 0
		r.mu.Unlock()
		r.log(map[string]interface{}{"ev": "handled", "w": w})
	case "op":
		name := a[1].(string)
		if name == "Configure" {
			r.mu.Lock()
			r.nstart++ // configurations so far (the one that switched auto-refresh on is number 1)
			r.mu.Unlock()
		}
		if name != "NewCache" {
			r.log(map[string]interface{}{"ev": "op", "name": name, "st": r.snapshot(cache)})
		}
	case "configure.done":
		ix := cdi.VerifIndex(cache)
		dirs := []string{}
		for _, p := range ix["dirs"].([]string) {
			d, _ := r.dirID(p)
			dirs = append(dirs, d)
		}
		r.log(map[string]interface{}{"ev": "configured", "dirs": dirs, "auto": ix["autoRefresh"], "st": r.snapshot(cache)})
	}
}

func installWatchHook() {
	hookOnce.Do(func() {
		cdi.VerifHook = func(point string, a ...interface{}) {
			if len(a) == 0 {
				return
			}
			recordHook(point, a)
			if point == "refresh.done" {
				// pacing 3: file-system operations performed inside NewCache/Configure, right after its scan
				if f, ok := confOps.LoadAndDelete(goid()); ok {
					f.(func())()
				}
			}
			var key interface{} = a[0]
			if c, ok := a[0].(*cdi.Cache); ok {
				key = &c.Mutex
			}
			gv, ok := gates.Load(key)
			if !ok {
				return
			}
			g := gv.(*gate)
			switch point {
			case "watch.handled":
				atomic.StoreInt64(&g.handlerGoid, 0)
				atomic.AddInt32(&g.handled, 1)
			case "watch.exit":
				atomic.AddInt32(&g.exits, 1)
			case "watch.locked":
				atomic.StoreInt64(&g.handlerGoid, goid())
			case "watch.updated":
				if atomic.LoadInt32(&g.holdInner) == 1 {
					atomic.AddInt32(&g.atInner, 1)
					<-g.inner
				}
			case "refresh.done":
				if atomic.LoadInt32(&g.holdTail) == 1 && atomic.LoadInt64(&g.handlerGoid) == goid() {
					atomic.AddInt32(&g.atTail, 1)
					<-g.tail
				}
			case "watch.prelock":
				if atomic.LoadInt32(&g.closed) == 1 {
					atomic.AddInt32(&g.waiting, 1)
					<-g.tokens
					atomic.AddInt32(&g.waiting, -1)
				}
			}
		}
	})
}

func (g *gate) releaseOne(wait time.Duration) bool {
	deadline := time.Now().Add(wait)
	for atomic.LoadInt32(&g.waiting) == 0 {
		if time.Now().After(deadline) {
			return false
		}
		time.Sleep(time.Millisecond)
	}
	h0 := atomic.LoadInt32(&g.handled)
	g.tokens <- struct{}{}
	// the recorded step is the whole critical section: wait until the handler has rescanned
	for end := time.Now().Add(2 * time.Second); atomic.LoadInt32(&g.handled) == h0 && time.Now().Before(end); {
		time.Sleep(200 * time.Microsecond)
	}
	return true
}

// stepIn lets one waiting goroutine take the mutex and run up to the point after its watch update
// (returns "inner"), or to the end if it does not get there (a replaced watcher: "")
func (g *gate) stepIn(wait time.Duration) string {
	deadline := time.Now().Add(wait)
	for atomic.LoadInt32(&g.waiting) == 0 {
		if time.Now().After(deadline) {
			return ""
		}
		time.Sleep(time.Millisecond)
	}
	i0, h0, e0 := atomic.LoadInt32(&g.atInner), atomic.LoadInt32(&g.handled), atomic.LoadInt32(&g.exits)
	atomic.StoreInt32(&g.holdInner, 1)
	g.tokens <- struct{}{}
	for end := time.Now().Add(2 * time.Second); time.Now().Before(end); time.Sleep(200 * time.Microsecond) {
		if atomic.LoadInt32(&g.atInner) != i0 {
			return "inner"
		}
		if atomic.LoadInt32(&g.handled) != h0 || atomic.LoadInt32(&g.exits) != e0 {
			break
		}
	}
	atomic.StoreInt32(&g.holdInner, 0)
	g.drain()
	return ""
}

// drain lets pass whatever reached a parking point that is no longer in use (a step that timed out,
// code that visits the points in another order): nothing may stay parked with the cache lock held
func (g *gate) drain() {
	if atomic.LoadInt32(&g.holdInner) == 0 {
		select {
		case g.inner <- struct{}{}:
		default:
		}
	}
	if atomic.LoadInt32(&g.holdTail) == 0 {
		select {
		case g.tail <- struct{}{}:
		default:
		}
	}
}

// stepScan lets the goroutine parked after its watch update rescan; it parks again before the unlock ("tail")
func (g *gate) stepScan() string {
	t0, h0 := atomic.LoadInt32(&g.atTail), atomic.LoadInt32(&g.handled)
	atomic.StoreInt32(&g.holdTail, 1)
	atomic.StoreInt32(&g.holdInner, 0)
	g.inner <- struct{}{}
	for end := time.Now().Add(2 * time.Second); time.Now().Before(end); time.Sleep(200 * time.Microsecond) {
		if atomic.LoadInt32(&g.atTail) != t0 {
			return "tail"
		}
		if atomic.LoadInt32(&g.handled) != h0 {
			break
		}
	}
	atomic.StoreInt32(&g.holdTail, 0)
	g.drain()
	return ""
}

// leave releases whatever is parked inside the critical section and waits for its end
func (g *gate) leave(cs string) {
	h0 := atomic.LoadInt32(&g.handled)
	atomic.StoreInt32(&g.holdInner, 0)
	atomic.StoreInt32(&g.holdTail, 0)
	switch cs {
	case "inner":
		g.inner <- struct{}{}
	case "tail":
		g.tail <- struct{}{}
	default:
		return
	}
	for end := time.Now().Add(2 * time.Second); atomic.LoadInt32(&g.handled) == h0 && time.Now().Before(end); {
		time.Sleep(200 * time.Microsecond)
	}
}

func (g *gate) open() {
	atomic.StoreInt32(&g.holdInner, 0)
	atomic.StoreInt32(&g.holdTail, 0)
	for k := 0; k < 4; k++ {
		select {
		case g.inner <- struct{}{}:
		case g.tail <- struct{}{}:
		default:
		}
	}
	atomic.StoreInt32(&g.closed, 0)
	for atomic.LoadInt32(&g.waiting) > 0 {
		select {
		case g.tokens <- struct{}{}:
		default:
			time.Sleep(time.Millisecond)
		}
	}
}

// ---- the world

type autoWorld struct {
	root  string
	stage int
	// bad: a directory that "does not exist" is materialised as a path below a regular file
	// (ENOTDIR) instead of a missing entry (ENOENT): another way of not being scannable or watchable
	bad bool
}

func autoKind(d string) string { return "v" + strings.ToLower(d) + ".com/cls" }

// In the ordinary world the directories are siblings whose names are string prefixes of each other
// (cdi, cdi.d, cdi.d2): whatever compares paths without minding the separator confuses them.  In the
// "bad" world each has a parent of its own, which becomes a regular file when the directory is absent.
var flatNames = map[string]string{"A": "cdi", "B": "cdi.d", "C": "cdi.d2"}

func (w *autoWorld) dir(d string) string {
	if !w.bad {
		return filepath.Join(w.root, "dirs", flatNames[d])
	}
	return filepath.Join(w.root, "dirs", d, "d")
}

// locate maps a path back to (directory id, "." or entry name)
func (w *autoWorld) locate(p string) (string, string) {
	for _, d := range []string{"A", "B", "C"} {
		if p == w.dir(d) {
			return d, "."
		}
		if filepath.Dir(p) == w.dir(d) {
			return d, filepath.Base(p)
		}
	}
	return "?", p
}

// absent makes directory d not exist (in the way this world does that); present creates it
func (w *autoWorld) absent(d string) error {
	top := filepath.Join(w.root, "dirs", d)
	_ = os.Remove(w.dir(d))
	if !w.bad {
		return nil
	}
	if w.bad {
		_ = os.Remove(top)
		return os.WriteFile(top, []byte("a regular file where a directory is expected\n"), 0o644)
	}
	return os.MkdirAll(top, 0o755)
}

func (w *autoWorld) present(d string) error {
	if !w.bad {
		return os.Mkdir(w.dir(d), 0o755)
	}
	top := filepath.Join(w.root, "dirs", d)
	if st, err := os.Lstat(top); err == nil && !st.IsDir() {
		_ = os.Remove(top)
	}
	if err := os.MkdirAll(top, 0o755); err != nil {
		return err
	}
	return os.Mkdir(w.dir(d), 0o755)
}
func (w *autoWorld) file(d, n string) string { return filepath.Join(w.dir(d), n) }
func (w *autoWorld) staging() string {
	w.stage++
	return filepath.Join(w.root, "stage", fmt.Sprintf("s%d", w.stage))
}

func autoContent(d string, c int) []byte {
	return []byte(fmt.Sprintf(`{"cdiVersion":"0.3.0","kind":"%s","devices":[{"name":"dev","containerEdits":{"env":["V=%d"]}}]}`, autoKind(d), c))
}

func (w *autoWorld) do(a autoAct) error {
	switch a.A {
	case "createwrite":
		return os.WriteFile(w.file(a.D, a.N), autoContent(a.D, a.C), 0o644)
	case "rewrite":
		f, err := os.OpenFile(w.file(a.D, a.N), os.O_WRONLY|os.O_TRUNC, 0o644)
		if err != nil {
			return err
		}
		_, err = f.Write(autoContent(a.D, a.C))
		f.Close()
		return err
	case "renamewithin":
		return os.Rename(w.file(a.D, "t.tmp"), w.file(a.D, "f.json"))
	case "movein":
		s := w.staging()
		if err := os.WriteFile(s, autoContent(a.D, a.C), 0o644); err != nil {
			return err
		}
		return os.Rename(s, w.file(a.D, "f.json"))
	case "moveout":
		return os.Rename(w.file(a.D, "f.json"), w.staging())
	case "removefile":
		return os.Remove(w.file(a.D, a.N))
	case "rmdir":
		if err := os.Remove(w.dir(a.D)); err != nil {
			return err
		}
		return w.absent(a.D)
	case "mkdir":
		return w.present(a.D)
	case "renamediraway":
		if err := os.Rename(w.dir(a.D), w.staging()); err != nil {
			return err
		}
		return w.absent(a.D)
	}
	return nil
}

type autoView struct {
	Devs     map[string]int // dir id -> content version resolved (0 none)
	FileErrs []string
	DirErrs  []string
}

func (w *autoWorld) view(c *cdi.Cache, dirs []string) autoView {
	v := autoView{Devs: map[string]int{}}
	listed := map[string]bool{}
	for _, q := range c.ListDevices() {
		listed[q] = true
	}
	for _, d := range dirs {
		q := autoKind(d) + "=dev"
		dev := c.GetDevice(q)
		ver := 0
		if dev != nil {
			ver = atoi(envVal(dev.ContainerEdits.Env, "V"))
			if !listed[q] {
				ver = -1
			}
		}
		v.Devs[d] = ver
	}
	for p := range c.GetErrors() {
		if d, n := w.locate(p); d != "?" {
			if n != "." {
				v.FileErrs = append(v.FileErrs, d+"/d/"+n)
			} else {
				v.DirErrs = append(v.DirErrs, d+"/d")
			}
		}
	}
	sort.Strings(v.FileErrs)
	sort.Strings(v.DirErrs)
	return v
}

func (w *autoWorld) paths(ds []string) []string {
	s := append([]string(nil), ds...)
	sort.Strings(s) // priority is a fixed order on the directory ids
	out := []string{}
	for _, d := range s {
		out = append(out, w.dir(d))
	}
	return out
}

func sameView(a, b autoView, dirErrs bool) bool {
	if !reflect.DeepEqual(a.Devs, b.Devs) || !reflect.DeepEqual(append([]string{}, a.FileErrs...), append([]string{}, b.FileErrs...)) {
		return false
	}
	return !dirErrs || reflect.DeepEqual(append([]string{}, a.DirErrs...), append([]string{}, b.DirErrs...))
}

// runAutoOnce executes the behaviour with one pacing; returns "" when the cache converged.
func runAutoOnce(row *autoRow, pacing int, r *rand.Rand, bad bool, rec *autoRecorder) (string, autoView, autoView, error) {
	w := &autoWorld{root: mkScratch("auto"), bad: bad}
	defer os.RemoveAll(w.root)
	_ = os.MkdirAll(filepath.Join(w.root, "dirs"), 0o755)
	_ = os.MkdirAll(filepath.Join(w.root, "stage"), 0o755)
	init := row.Hist[0]
	exists := map[string]bool{}
	for _, d := range init.Ex {
		exists[d] = true
	}
	for _, d := range []string{"A", "B", "C"} {
		if exists[d] {
			_ = w.present(d)
		} else {
			_ = w.absent(d)
		}
	}
	dirs := append([]string(nil), init.Nd...)
	auto := true
	// the recorder has to be in place before the cache starts its watcher goroutine: NewCache is
	// split into a manual-mode creation and a Configure that switches auto-refresh on
	// pacing 3: the file-system operations that directly follow the creation or a Configure in the behaviour are
	// performed inside that call, after its scan and before it returns (refresh.done hook in the calling goroutine)
	skip := 0
	var inErr error
	inside := func(from int) {
		if pacing != 3 {
			return
		}
		var ops []autoAct
		for _, a := range row.Hist[from:] {
			if !isFsOp(a.A) || len(ops) == 2 {
				break
			}
			ops = append(ops, a)
		}
		if len(ops) == 0 {
			return
		}
		skip = len(ops)
		confOps.Store(goid(), func() {
			for _, a := range ops {
				if err := w.do(a); err != nil && inErr == nil {
					inErr = fmt.Errorf("file-system operation %s(%s,%s): %w", a.A, a.D, a.N, err)
				}
			}
		})
	}
	inside(1)
	cache, _ := cdi.NewCache(cdi.WithSpecDirs(w.paths(dirs)...), cdi.WithAutoRefresh(rec == nil))
	if _, left := confOps.LoadAndDelete(goid()); left {
		skip = 0 // the hook did not fire: the operations are still to be done
	}
	g := &gate{tokens: make(chan struct{}), inner: make(chan struct{}), tail: make(chan struct{})}
	gates.Store(&cache.Mutex, g)
	if rec != nil {
		rec.w, rec.gor = w, map[int64]int{}
		recCaches.Store(&cache.Mutex, cache)
		recorders.Store(&cache.Mutex, rec)
		_ = cache.Configure(cdi.WithAutoRefresh(true))
		rec.mu.Lock()
		rec.events = []map[string]interface{}{{"ev": "init", "ex": append([]string{}, init.Ex...), "dirs": append([]string{}, dirs...)}}
		rec.mu.Unlock()
	}
	defer func() {
		if rec != nil {
			rec.mu.Lock()
			rec.stopped = true
			rec.mu.Unlock()
		}
		g.open()
		gates.Delete(&cache.Mutex)
		_ = cache.Configure(cdi.WithAutoRefresh(false))
		recorders.Delete(&cache.Mutex)
		recCaches.Delete(&cache.Mutex)
	}()
	if pacing == 1 || pacing == 2 {
		atomic.StoreInt32(&g.closed, 1)
	}
	nq := 0
	lastQuery := false
	cs := "" // where the watcher goroutine is parked inside its critical section: "", "inner", "tail"
	defer func() { g.leave(cs) }()
	for hi, a := range row.Hist[1:] {
		if skip > 0 && isFsOp(a.A) {
			skip--
			continue
		}
		if inErr != nil {
			return "", autoView{}, autoView{}, inErr
		}
		if cs == "" {
			g.drain()
		}
		if cs != "" && !isFsOp(a.A) && a.A != "scan" && (a.A == "query" || a.A == "configure" || a.A == "handle") {
			g.leave(cs) // these wait for the mutex
			cs = ""
		}
		switch a.A {
		case "query":
			if lastQuery && pacing != 1 {
				continue // runs of queries add nothing when free-running
			}
			lastQuery = true
			nq++
			switch nq % 5 {
			case 4:
				_ = cache.Refresh() // in auto mode: the same "refresh if required" as a query
			case 0:
				cache.ListDevices()
			case 1:
				for _, d := range dirs {
					cache.GetDevice(autoKind(d) + "=dev")
				}
			case 2:
				cache.GetErrors()
			case 3:
				_, _ = cache.InjectDevices(&oci.Spec{}, autoKind("A")+"=dev")
			}
			continue
		case "read", "fetch", "recv", "recvdrop", "exit":
			if pacing == 1 {
				time.Sleep(time.Duration(500+r.Intn(1500)) * time.Microsecond) // let the kernel and fsnotify deliver
			}
		case "handle":
			if pacing == 1 {
				cs = g.stepIn(50 * time.Millisecond)
			}
		case "scan":
			if pacing == 1 && cs == "inner" {
				cs = g.stepScan()
			}
		case "configure":
			if pacing == 1 {
				time.Sleep(2 * time.Millisecond)
			}
			dirs, auto = append([]string(nil), a.Nd...), a.Na
			inside(hi + 2)
			if err := cache.Configure(cdi.WithSpecDirs(w.paths(dirs)...), cdi.WithAutoRefresh(auto)); err != nil {
				return "configure failed: " + err.Error(), autoView{}, autoView{}, nil
			}
			if _, left := confOps.LoadAndDelete(goid()); left {
				skip = 0
			}
		case "shortage":
		default:
			var err error
			if rec != nil && cs != "" {
				// the watcher goroutine is parked inside its critical section: it holds the cache lock for us
				rec.log(map[string]interface{}{"ev": "fs", "a": a.A, "d": a.D, "n": a.N, "c": a.C})
				err = w.do(a)
				rec.log(map[string]interface{}{"ev": "fsdone"})
			} else if rec != nil {
				// logged before the system call, both under the cache lock: whatever the operation causes
				// comes later in the trace, and no scan can fall between the entry and the change
				cache.Lock()
				rec.log(map[string]interface{}{"ev": "fs", "a": a.A, "d": a.D, "n": a.N, "c": a.C})
				err = w.do(a)
				// the operation took effect somewhere between the two entries: fsnotify's reader, which does
				// not take the cache lock, may have looked at the directory before or after it
				rec.log(map[string]interface{}{"ev": "fsdone"})
				cache.Unlock()
			} else {
				err = w.do(a)
			}
			if err != nil {
				return "", autoView{}, autoView{}, fmt.Errorf("file-system operation %s(%s,%s): %w", a.A, a.D, a.N, err)
			}
			if pacing == 0 || pacing == 3 {
				time.Sleep(time.Duration(r.Intn(1500)) * time.Microsecond)
			}
		}
		lastQuery = false
	}
	g.leave(cs)
	cs = ""
	g.open()
	if rec != nil {
		// let the released handlers finish, then stop: the polling below is not part of the trace
		time.Sleep(20 * time.Millisecond)
		cache.ListDevices()
		rec.mu.Lock()
		rec.stopped = true
		rec.mu.Unlock()
	}
	// what a fresh cache on the final directories returns
	fresh, _ := cdi.NewCache(cdi.WithSpecDirs(w.paths(dirs)...), cdi.WithAutoRefresh(auto))
	want := w.view(fresh, dirs)
	_ = fresh.Configure(cdi.WithAutoRefresh(false))
	// ... which in turn has to be what the specification says a scan of the final directories yields
	// (a reference built by the code under test shares its scan defects)
	if len(row.Fresh) > 0 {
		model := autoView{Devs: map[string]int{}, FileErrs: want.FileErrs, DirErrs: want.DirErrs}
		same := true
		for _, d := range dirs {
			model.Devs[d] = row.Fresh[d]
			same = same && want.Devs[d] == row.Fresh[d]
		}
		if !same {
			return "a new cache on the final directories differs from the specification's Fresh(cdirs)", want, model, nil
		}
	}
	if !auto {
		// manual mode: equal to a new cache after an explicit refresh (C20)
		_ = cache.Refresh()
		got := w.view(cache, dirs)
		if !sameView(got, want, true) {
			return "manual-mode cache differs from a new cache after Refresh", got, want, nil
		}
		return "", got, want, nil
	}
	deadline := time.Now().Add(10 * time.Second)
	var got autoView
	for {
		got = w.view(cache, dirs)
		if sameView(got, want, true) {
			return "", got, want, nil
		}
		if time.Now().After(deadline) {
			return "queries did not converge to what a fresh cache returns within 10s", got, want, nil
		}
		time.Sleep(15 * time.Millisecond)
	}
}

var traceDir string

var confOps sync.Map // goroutine id -> func(): what to do at the end of the scan of the Configure/NewCache running in that goroutine

func replayAutoRow(idx int, line []byte, seed int64, col *collector, pacings []int) {
	var row autoRow
	if err := json.Unmarshal(line, &row); err != nil || len(row.Hist) == 0 {
		col.add(Mismatch{Case: idx, Step: -1, Props: []string{"TOOL"}, What: "bad-row", Note: fmt.Sprint(err)})
		return
	}
	props := []string{"C11", "C01"} // C01 covers automatic refresh configurations as well
	hasConf := false
	for _, a := range row.Hist {
		if a.A == "configure" {
			hasConf = true
		}
	}
	if hasConf {
		props = []string{"C20", "C11"}
	}
	steps := 0
	for _, pacing := range pacings {
		var fails []string
		var got, want autoView
		const attempts = 3
		for at := 0; at < attempts; at++ {
			r := rand.New(rand.NewSource(seed*7919 + int64(idx)*31 + int64(pacing)*7 + int64(at)))
			var why string
			var err error
			var rec *autoRecorder
			if traceDir != "" && at == 0 && pacing != 2 && pacing != 3 {
				rec = &autoRecorder{}
			}
			pan, stack, hung := guarded(60*time.Second, func() { why, got, want, err = runAutoOnce(&row, pacing, r, idx%2 == 1, rec) })
			if rec != nil && pan == nil && !hung && err == nil {
				rec.mu.Lock()
				b, _ := json.Marshal(map[string]interface{}{"case": idx, "pacing": pacing, "events": rec.events})
				rec.mu.Unlock()
				_ = os.WriteFile(filepath.Join(traceDir, fmt.Sprintf("trace-%d-%d.json", idx, pacing)), b, 0o644)
			}
			steps++
			if pan != nil {
				col.add(Mismatch{Case: idx, Step: pacing, Props: append([]string{"C08"}, props...), What: "panic", Got: fmt.Sprint(pan), Note: stack, Row: json.RawMessage(line)})
				return
			}
			if hung {
				col.add(Mismatch{Case: idx, Step: pacing, Props: append([]string{"C12"}, props...), What: "hang", Row: json.RawMessage(line)})
				return
			}
			if err != nil {
				col.add(Mismatch{Case: idx, Step: pacing, Props: []string{"TOOL"}, What: "fs-op", Note: err.Error(), Row: json.RawMessage(line)})
				return
			}
			if why == "" {
				fails = nil
				break
			}
			fails = append(fails, why)
		}
		if len(fails) == attempts {
			p2 := props
			nd := map[string]bool{}
			missingOnce := len(row.Hist[0].Ex) < len(row.Hist[0].Nd)
			for _, a := range row.Hist {
				for _, d := range a.Nd {
					nd[d] = true
				}
				if a.A == "rmdir" || a.A == "renamediraway" {
					missingOnce = true
				}
			}
			if idx%2 == 1 || (len(nd) > 1 && missingOnce) {
				// an unscannable directory and its repair; a missing directory next to another configured one
				p2 = append(append([]string{}, props...), "C13")
			}
			col.add(Mismatch{Case: idx, Step: pacing, Props: p2, What: "no-convergence", Want: want, Got: got,
				Note: fmt.Sprintf("pacing %d (0 free-running, 1 recorded schedule, 2 watcher held until the end, 3 operations inside NewCache/Configure after its scan), missing directories are %s: %s; failed in %d fresh executions",
					pacing, map[bool]string{false: "absent", true: "below a regular file"}[idx%2 == 1], fails[0], attempts),
				Row: json.RawMessage(line)})
		} else if len(fails) > 0 {
			col.count("transient_failures", 1)
		}
	}
	col.done(line, len(row.Hist) > 2, steps)
}

func replayAutoMain(args []string) int {
	fs := flag.NewFlagSet("replay-auto", flag.ExitOnError)
	var cf commonFlags
	addCommon(fs, &cf)
	pac := fs.String("pacings", "0,1,2,3", "pacings to run")
	fs.StringVar(&traceDir, "trace-dir", "", "record the first execution of pacings 0 and 1 as traces for spec/CacheAutoTrace.tla")
	_ = fs.Parse(args)
	installWatchHook()
	var pacings []int
	for _, p := range strings.Split(*pac, ",") {
		pacings = append(pacings, atoi(p))
	}
	if cf.workers > 12 {
		cf.workers = 12 // every cache under test owns an inotify instance (limit 128 per user)
	}
	start := time.Now()
	col := newCollector()
	if err := forEachCase(&cf, func(idx int, line []byte) { replayAutoRow(idx, line, cf.seed, col, pacings) }); err != nil {
		fmt.Fprintln(os.Stderr, err)
		return 2
	}
	return col.finish(start)
}

func isFsOp(a string) bool {
	switch a {
	case "createwrite", "rewrite", "renamewithin", "movein", "moveout", "removefile", "rmdir", "mkdir", "renamediraway":
		return true
	}
	return false
}
