// Command harness executes cases and behaviours produced by the TLA+ specifications in
// /verif/spec against the real container-device-interface code (built from /repo's
// working tree) and compares, step by step, what the code does with what the
// specification says.  One sub-command per binding; each prints a single JSON Result as
// its last line of stdout.
package main

import (
	"fmt"
	"os"
	"strconv"
	"syscall"
)

type subcmd func(args []string) int

var subcmds = map[string]subcmd{}

func register(name string, f subcmd) { subcmds[name] = f }

func main() {
	if len(os.Args) < 2 {
		fmt.Fprintln(os.Stderr, "usage: harness <sub-command> [flags]")
		os.Exit(2)
	}
	f, ok := subcmds[os.Args[1]]
	if !ok {
		fmt.Fprintf(os.Stderr, "unknown sub-command %q\n", os.Args[1])
		os.Exit(2)
	}
	// VERIF_UID: give up root before anything runs, so that file modes mean something (EACCES faults)
	if u := os.Getenv("VERIF_UID"); u != "" {
		id, err := strconv.Atoi(u)
		if err == nil {
			_ = syscall.Setgroups([]int{})
			if err = syscall.Setgid(id); err == nil {
				err = syscall.Setuid(id)
			}
		}
		if err != nil || os.Geteuid() != id {
			fmt.Fprintf(os.Stderr, "cannot switch to uid %s: %v\n", u, err)
			os.Exit(2)
		}
	}
	os.Exit(f(os.Args[2:]))
}
