package main

// stress: C12 on the real code.  Built with -race.  The client programs TLC explored in
// spec/CacheConc.tla are run by concurrent goroutines against one auto-refresh cache while a
// switcher flips the only Spec file atomically (rename) between two contents of two devices
// each.  Violations: a race-detector report (seen by the caller on stderr / exit status), a
// result that is neither content ("mixed snapshot"), a stall.

import (
	"encoding/json"
	"flag"
	"fmt"
	"os"
	"path/filepath"
	"runtime"
	"sort"
	"strings"
	"sync"
	"sync/atomic"
	"syscall"
	"time"

	oci "github.com/opencontainers/runtime-spec/specs-go"
	"tags.cncf.io/container-device-interface/pkg/cdi"
	specs "tags.cncf.io/container-device-interface/specs-go"
)

func init() { register("stress", stressMain) }

const stressKind = "v1.com/cls"

func stressContent(v int) []byte {
	names := []string{"a", "x", "y"}
	if v == 2 {
		names = []string{"b", "x", "y"}
	}
	s := &specs.Spec{Version: "0.3.0", Kind: stressKind}
	s.ContainerEdits.Env = []string{fmt.Sprintf("SPEC=%d", v)}
	for _, n := range names {
		s.Devices = append(s.Devices, specs.Device{Name: n, ContainerEdits: specs.ContainerEdits{Env: []string{fmt.Sprintf("DEV=%s-%d", n, v), fmt.Sprintf("DEV_%s=%d", n, v)}}})
	}
	b, _ := json.Marshal(s)
	return b
}

type stressProg struct {
	Programs map[string][]string `json:"programs"`
}

func stressMain(args []string) int {
	fs := flag.NewFlagSet("stress", flag.ExitOnError)
	var cf commonFlags
	addCommon(fs, &cf)
	dur := fs.Duration("duration", 10*time.Second, "time budget")
	_ = fs.Parse(args)
	start := time.Now()
	col := newCollector()
	var progs []stressProg
	if err := forEachCase(&commonFlags{cases: cf.cases, workers: 1, only: -1}, func(idx int, line []byte) {
		var p stressProg
		if json.Unmarshal(line, &p) == nil && len(p.Programs) > 0 {
			progs = append(progs, p)
		}
	}); err != nil || len(progs) == 0 {
		fmt.Fprintln(os.Stderr, "no programs:", err)
		return 2
	}
	root := mkScratch("stress")
	defer os.RemoveAll(root)
	dir, dir2, stage := filepath.Join(root, "cdi"), filepath.Join(root, "cdi2"), filepath.Join(root, "stage")
	_ = os.MkdirAll(dir, 0o755)
	_ = os.MkdirAll(stage, 0o755)
	target := filepath.Join(dir, "x.json")
	_ = os.WriteFile(target, stressContent(1), 0o644)

	// one counter per cache, incremented (non-atomically) inside its critical sections
	var counters sync.Map // *sync.Mutex -> *int
	cdi.VerifHook = func(point string, a ...interface{}) {
		var key *sync.Mutex
		switch point {
		case "op":
			if c, ok := a[0].(*cdi.Cache); ok {
				key = &c.Mutex
			}
		case "watch.locked":
			key, _ = a[0].(*sync.Mutex)
		}
		if key != nil {
			p, _ := counters.LoadOrStore(key, new(int))
			*(p.(*int))++
		}
	}
	caches := []*cdi.Cache{}
	c0, _ := cdi.NewCache(cdi.WithSpecDirs(dir, dir2), cdi.WithAutoRefresh(true))
	caches = append(caches, c0)
	// a second cache created while no descriptor is available for a watcher: every query of it rescans
	{
		var old syscall.Rlimit
		_ = syscall.Getrlimit(syscall.RLIMIT_NOFILE, &old)
		lim := syscall.Rlimit{Cur: uint64(countResources().Fds + 1), Max: old.Max}
		_ = syscall.Setrlimit(syscall.RLIMIT_NOFILE, &lim)
		c1, _ := cdi.NewCache(cdi.WithSpecDirs(dir), cdi.WithAutoRefresh(true))
		_ = syscall.Setrlimit(syscall.RLIMIT_NOFILE, &old)
		if len(c1.GetErrors()) > 0 {
			caches = append(caches, c1)
			col.count("caches_without_watcher", 1)
		} else {
			_ = c1.Configure(cdi.WithAutoRefresh(false))
		}
	}
	var progress int64
	var stop int32
	var mu sync.Mutex
	mixed := func(what string, got interface{}) {
		mu.Lock()
		defer mu.Unlock()
		col.add(Mismatch{Props: []string{"C12"}, What: "result-is-neither-of-the-two-states", Want: "content 1 {a,x,y} or content 2 {b,x,y}, completely", Got: got, Note: what})
	}
	sameVersion := func(env []string) bool {
		sv, dv := envVal(env, "SPEC"), envVal(env, "DEV")
		return sv != "" && strings.HasSuffix(dv, "-"+sv)
	}
	doOp := func(client int, op string) {
		cache := caches[client%len(caches)]
		if cache != c0 && (op == "Configure" || op == "WriteSpec" || op == "RemoveSpec") {
			cache = c0 // the watcher-less cache keeps its configuration
		}
		switch op {
		case "ListDevices":
			var got []string
			for _, q := range cache.ListDevices() {
				if strings.HasPrefix(q, stressKind+"=") {
					got = append(got, strings.TrimPrefix(q, stressKind+"="))
				}
			}
			sort.Strings(got)
			if s := strings.Join(got, ","); s != "a,x,y" && s != "b,x,y" {
				mixed("ListDevices", got)
			}
		case "GetDevice":
			d := cache.GetDevice(stressKind + "=y")
			if d == nil {
				mixed("GetDevice(y) unresolved", nil)
			} else {
				v := envVal(d.GetSpec().ContainerEdits.Env, "SPEC")
				if envVal(d.ContainerEdits.Env, "DEV") != "y-"+v || len(d.GetSpec().Devices) != 3 {
					mixed("GetDevice(y)", fmt.Sprint(d.ContainerEdits.Env, d.GetSpec().ContainerEdits.Env))
				}
			}
		case "InjectDevices":
			sp := &oci.Spec{}
			if _, err := cache.InjectDevices(sp, stressKind+"=x", stressKind+"=y"); err != nil || sp.Process == nil || !sameVersion(sp.Process.Env) ||
				envVal(sp.Process.Env, "DEV_x") != envVal(sp.Process.Env, "SPEC") || envVal(sp.Process.Env, "DEV_y") != envVal(sp.Process.Env, "SPEC") {
				mixed("InjectDevices(x, y)", fmt.Sprint(err, sp.Process))
			}
		case "ListVendors":
			if v := cache.ListVendors(); len(v) == 0 {
				mixed("ListVendors", v)
			}
		case "GetVendorSpecs":
			for _, s := range cache.GetVendorSpecs("v1.com") {
				var n []string
				for _, d := range s.Devices {
					n = append(n, d.Name)
				}
				if j := strings.Join(n, ","); j != "a,x,y" && j != "b,x,y" {
					mixed("GetVendorSpecs", n)
				}
				_ = cache.GetSpecErrors(s)
			}
		case "GetSpecErrors":
			for _, s := range cache.GetVendorSpecs("v1.com") {
				_ = cache.GetSpecErrors(s)
			}
		case "Refresh":
			_ = cache.Refresh()
		case "Configure":
			_ = cache.Configure(cdi.WithSpecDirs(dir, dir2), cdi.WithAutoRefresh(true))
		case "NewCache":
			// the constructor starts the watcher before its initial scan: events arrive while it scans
			nc, err := cdi.NewCache(cdi.WithSpecDirs(dir, dir2), cdi.WithAutoRefresh(true))
			if err == nil && nc != nil {
				var got []string
				for _, q := range nc.ListDevices() {
					if strings.HasPrefix(q, stressKind+"=") {
						got = append(got, strings.TrimPrefix(q, stressKind+"="))
					}
				}
				sort.Strings(got)
				if s := strings.Join(got, ","); s != "a,x,y" && s != "b,x,y" {
					mixed("NewCache+ListDevices", got)
				}
				_ = nc.Configure(cdi.WithAutoRefresh(false))
			}
		case "GetErrors":
			_ = cache.GetErrors()
		case "GetSpecDirectories":
			want := 2
			if cache != c0 {
				want = 1 // the watcher-less cache is configured with one directory
			}
			if d := cache.GetSpecDirectories(); len(d) != want {
				mixed("GetSpecDirectories", d)
			}
		case "GetSpecDirErrors":
			_ = cache.GetSpecDirErrors()
		case "WriteSpec":
			raw := &specs.Spec{Version: "0.3.0", Kind: fmt.Sprintf("w%d.com/cls", client), Devices: []specs.Device{{Name: "w", ContainerEdits: specs.ContainerEdits{Env: []string{"W=1"}}}}}
			_ = cache.WriteSpec(raw, fmt.Sprintf("stress-%d", client))
		case "RemoveSpec":
			_ = cache.RemoveSpec(fmt.Sprintf("stress-%d", client))
		}
		atomic.AddInt64(&progress, 1)
	}
	var wg sync.WaitGroup
	// switcher
	wg.Add(1)
	go func() {
		defer wg.Done()
		for v, i := 2, 0; atomic.LoadInt32(&stop) == 0; v, i = 3-v, i+1 {
			tmp := filepath.Join(stage, fmt.Sprintf("s%d", i%4))
			_ = os.WriteFile(tmp, stressContent(v), 0o644)
			_ = os.Rename(tmp, target)
			time.Sleep(150 * time.Microsecond)
		}
	}()
	// watchdog: no operation completing for 30 s while goroutines are parked = stall
	stalled := int32(0)
	go func() {
		last, lastT := int64(-1), time.Now()
		for atomic.LoadInt32(&stop) == 0 {
			time.Sleep(500 * time.Millisecond)
			if p := atomic.LoadInt64(&progress); p != last {
				last, lastT = p, time.Now()
			} else if time.Since(lastT) > 30*time.Second {
				atomic.StoreInt32(&stalled, 1)
				buf := make([]byte, 1<<20)
				n := runtime.Stack(buf, true)
				col.add(Mismatch{Props: []string{"C12"}, What: "stall", Note: string(buf[:n])})
				fmt.Println(jsonOf(col.res))
				os.Exit(1)
			}
		}
	}()
	nrounds := 0
	deadline := time.Now().Add(*dur)
	workers := runtime.NumCPU()
	for time.Now().Before(deadline) {
		for pi := 0; pi < len(progs) && time.Now().Before(deadline); pi++ {
			p := progs[(pi*7+int(cf.seed)+nrounds)%len(progs)]
			var cw sync.WaitGroup
			ci := 0
			// the explored client programs, replicated over the available cores
			for rep := 0; rep*len(p.Programs) < workers; rep++ {
				for _, ops := range p.Programs {
					ci++
					cw.Add(1)
					go func(client int, ops []string) {
						defer cw.Done()
						for k := 0; k < 3; k++ {
							for _, op := range ops {
								doOp(client, op)
							}
						}
					}(ci, ops)
				}
			}
			cw.Wait()
			nrounds++
			row, _ := json.Marshal(p)
			col.done(row, true, 1)
		}
	}
	atomic.StoreInt32(&stop, 1)
	wg.Wait()
	for _, c := range caches {
		_ = c.Configure(cdi.WithAutoRefresh(false))
	}
	col.count("operations", int(atomic.LoadInt64(&progress)))
	col.count("rounds", nrounds)
	for _, c := range caches {
		c.Lock()
		if p, ok := counters.Load(&c.Mutex); ok {
			col.count("critical_sections_counted", *(p.(*int)))
		}
		c.Unlock()
	}
	return col.finish(start)
}
