package main

// roundtrip: rows of spec/RoundTrip.tla ([kind, slots, vals, enc]).  A rich base Spec gets the
// chosen slots set to pool strings / extreme numbers, is written with Cache.WriteSpec under a
// .json, .yaml or extension-less name, read back with ReadSpec and loaded through a cache.

import (
	"encoding/json"
	"flag"
	"fmt"
	"math"
	"math/rand"
	"os"
	"path/filepath"
	"strings"
	"time"
	"unicode/utf8"

	"tags.cncf.io/container-device-interface/pkg/cdi"
	specs "tags.cncf.io/container-device-interface/specs-go"
)

func init() { register("roundtrip", roundtripMain) }

// the string pool: YAML-sensitive spellings and every code-point class (DESIGN appendix H.5)
var stringPool = []string{
	"plain", "yes", "no", "on", "off", "y", "n", "true", "false", "null", "~", "Null", "TRUE",
	"0123", "1_000", "0x1F", "0o17", "1e3", ".inf", "-.inf", ".nan", "1.5", "+1", "-",
	"2001-12-14", "2001-12-14T21:59:43Z", " leading", "trailing ", "\ttab", "in\nside", "end\n", "a\rb", "a\r\nb",
	"\"", "'", "\\", "#", " #", ": ", "- a", "? a", "{a}", "[a]", "&a", "*a", "!t", "|", ">", "%", "@", "`", "<<",
	"\x01", "\x1f", "\x7f", "\u0080", "\u0085", "\u009f", "\u00a0", "\u2028", "\u2029", "\ufeff", "\ufffd", "\U0001F600",
	strings.Repeat("long line ", 30), "", "a: b", "key: value # comment", "---", "...", "a,b", "=", "x=y=z", "\\n", "%YAML", "\u200b",
	"multi\n\nline\n", "  ", "\t", "'quoted'", "\"dq\"", "é", "\ufffe", "\uffff", "a\ufffeb", "\n", "\nx", "\n\nx", "\nx\n", "\n x", "\t\nx", "\n\n", "\n#x", "\r\nx", "x\n\ty", " \n \n", "\U0001FFFE", "\U0010FFFF", "\ufdd0", "\u061c", "\u200e", "\ue000", "\ud7ff",
}

type rtRow struct {
	Kind  string            `json:"kind"`
	Slots []string          `json:"slots"`
	Vals  []json.RawMessage `json:"vals"`
	Enc   string            `json:"enc"`
}

func poolString(id int, r *rand.Rand) string {
	if id < len(stringPool) {
		return stringPool[id]
	}
	// beyond the pool: seeded random valid UTF-8
	n := 1 + r.Intn(12)
	var b strings.Builder
	for i := 0; i < n; i++ {
		var c rune
		switch r.Intn(5) {
		case 0:
			c = rune(r.Intn(0x80))
		case 1:
			c = rune(0x80 + r.Intn(0x780))
		case 2:
			c = rune(0x800 + r.Intn(0xD000-0x800))
		case 3:
			c = rune(0xE000 + r.Intn(0x2000))
		default:
			c = rune(0x10000 + r.Intn(0x100000))
		}
		if utf8.ValidRune(c) {
			b.WriteRune(c)
		}
	}
	return b.String()
}

func baseSpecRT() *specs.Spec {
	fm := os.FileMode(0o640)
	uid, gid := uint32(1), uint32(2)
	to := 7
	return &specs.Spec{
		Version:     "1.0.0",
		Kind:        "v1.com/cls",
		Annotations: map[string]string{"spec.note": "v"},
		ContainerEdits: specs.ContainerEdits{
			Env:            []string{"A=b"},
			DeviceNodes:    []*specs.DeviceNode{{Path: "/dev/a", HostPath: "/dev/h", Type: "c", Major: 1, Minor: 2, FileMode: &fm, Permissions: "rw", UID: &uid, GID: &gid}},
			Hooks:          []*specs.Hook{{HookName: "prestart", Path: "/bin/hook", Args: []string{"hook", "arg"}, Env: []string{"H=1"}, Timeout: &to}},
			Mounts:         []*specs.Mount{{HostPath: "/h", ContainerPath: "/c", Options: []string{"ro"}, Type: "bind"}},
			IntelRdt:       &specs.IntelRdt{ClosID: "clos", L3CacheSchema: "L3:0=f", MemBwSchema: "MB:0=50", EnableCMT: true},
			AdditionalGIDs: []uint32{5},
		},
		Devices: []specs.Device{
			{Name: "dev1", Annotations: map[string]string{"dev.note": "v"}, ContainerEdits: specs.ContainerEdits{
				Env:         []string{"D=1"},
				DeviceNodes: []*specs.DeviceNode{{Path: "/dev/d1"}},
				Mounts:      []*specs.Mount{{HostPath: "/dh", ContainerPath: "/dc"}},
			}},
			{Name: "dev2", ContainerEdits: specs.ContainerEdits{Hooks: []*specs.Hook{{HookName: "poststop", Path: "/bin/h2"}}, AdditionalGIDs: []uint32{6, 7}}},
		},
	}
}

func setStr(s *specs.Spec, slot, v string) {
	e := &s.ContainerEdits
	switch slot {
	case "envval":
		e.Env[0] = "A=" + v
		s.Devices[0].ContainerEdits.Env[0] = "D=" + v
	case "hookpath":
		e.Hooks[0].Path = v
	case "hookarg":
		e.Hooks[0].Args = []string{"hook", v}
	case "hookenv":
		e.Hooks[0].Env = []string{"H=" + v}
	case "mounthost":
		e.Mounts[0].HostPath = v
	case "mountcont":
		s.Devices[0].ContainerEdits.Mounts[0].ContainerPath = v
	case "mountopt":
		e.Mounts[0].Options = []string{"ro", v}
	case "mounttype":
		e.Mounts[0].Type = v
	case "nodepath":
		s.Devices[0].ContainerEdits.DeviceNodes[0].Path = v
	case "nodehost":
		e.DeviceNodes[0].HostPath = v
	case "rdtclos":
		e.IntelRdt.ClosID = v
	case "rdtl3":
		e.IntelRdt.L3CacheSchema = v
	case "rdtmb":
		e.IntelRdt.MemBwSchema = v
	case "annval":
		s.Annotations["spec.note"] = v
	case "devannval":
		s.Devices[0].Annotations["dev.note"] = v
	case "perm":
		// permissions must stay within rwm: the pool string selects a subset instead
		p := ""
		for i, c := range "rwm" {
			if len(v) > i && v[i]%2 == 0 {
				p += string(c)
			}
		}
		e.DeviceNodes[0].Permissions = p
	}
}

// tailSpec: a small Spec in which the slot's string is the last scalar of the document (a
// reader that trims the file, or a writer that forgets the final newline, shows only there).
func tailSpec(slot, v string) *specs.Spec {
	s := &specs.Spec{Version: "1.0.0", Kind: "v1.com/cls", Devices: []specs.Device{{Name: "dev1", ContainerEdits: specs.ContainerEdits{Env: []string{"D=1"}}}}}
	e := &s.ContainerEdits
	switch slot {
	case "envval":
		e.Env = []string{"A=" + v}
	case "hookpath":
		e.Hooks = []*specs.Hook{{HookName: "prestart", Path: v}}
	case "hookarg":
		e.Hooks = []*specs.Hook{{HookName: "prestart", Path: "/bin/h", Args: []string{"h", v}}}
	case "hookenv":
		e.Hooks = []*specs.Hook{{HookName: "prestart", Path: "/bin/h", Env: []string{"H=" + v}}}
	case "mountcont":
		e.Mounts = []*specs.Mount{{HostPath: "/h", ContainerPath: v}}
	case "mountopt":
		e.Mounts = []*specs.Mount{{HostPath: "/h", ContainerPath: "/c", Options: []string{"ro", v}}}
	case "mounttype":
		e.Mounts = []*specs.Mount{{HostPath: "/h", ContainerPath: "/c", Type: v}}
	case "nodepath":
		e.DeviceNodes = []*specs.DeviceNode{{Path: v}}
	case "nodehost":
		e.DeviceNodes = []*specs.DeviceNode{{Path: "/dev/a", HostPath: v}}
	case "rdtclos":
		e.IntelRdt = &specs.IntelRdt{ClosID: v}
	case "rdtl3":
		e.IntelRdt = &specs.IntelRdt{L3CacheSchema: v}
	case "rdtmb":
		e.IntelRdt = &specs.IntelRdt{MemBwSchema: v}
	default:
		return nil
	}
	return s
}

func setInt(s *specs.Spec, slot, v string) {
	vals := map[string]int64{"zero": 0, "one": 1, "neg1": -1, "max32": math.MaxUint32, "max32p1": math.MaxUint32 + 1,
		"maxint64": math.MaxInt64, "minint64": math.MinInt64, "maxuint32m1": math.MaxUint32 - 1}
	n := vals[v]
	u32 := uint32(n)
	e := &s.ContainerEdits
	switch slot {
	case "major":
		e.DeviceNodes[0].Major = n
	case "minor":
		e.DeviceNodes[0].Minor = n
	case "filemode":
		fm := os.FileMode(u32)
		e.DeviceNodes[0].FileMode = &fm
	case "uid":
		e.DeviceNodes[0].UID = &u32
	case "gid":
		e.DeviceNodes[0].GID = &u32
	case "timeout":
		t := int(n)
		e.Hooks[0].Timeout = &t
	case "addgid":
		e.AdditionalGIDs = []uint32{u32, 5}
	}
}

// canon: semantic equality - a nil and an empty slice or map are the same value (omitempty
// members cannot tell them apart), pointers compare by pointee: the JSON image does exactly that.
func canon(s *specs.Spec) string {
	b, _ := json.Marshal(s)
	var v interface{}
	_ = json.Unmarshal(b, &v)
	return jsonOf(dropEmpty(v))
}

func dropEmpty(v interface{}) interface{} {
	switch t := v.(type) {
	case map[string]interface{}:
		for k, x := range t {
			x = dropEmpty(x)
			switch y := x.(type) {
			case nil:
				delete(t, k)
				continue
			case []interface{}:
				if len(y) == 0 {
					delete(t, k)
					continue
				}
			case map[string]interface{}:
				if len(y) == 0 && k != "containerEdits" {
					delete(t, k)
					continue
				}
			}
			t[k] = x
		}
		return t
	case []interface{}:
		for i := range t {
			t[i] = dropEmpty(t[i])
		}
		return t
	}
	return v
}

func roundtripRow(idx int, line []byte, seed int64, col *collector) {
	var row rtRow
	if err := json.Unmarshal(line, &row); err != nil {
		col.add(Mismatch{Case: idx, Step: -1, Props: []string{"TOOL"}, What: "bad-row", Note: err.Error()})
		return
	}
	r := rand.New(rand.NewSource(seed*1000003 + int64(idx)))
	raw := baseSpecRT()
	var tail *specs.Spec
	desc := []string{}
	for i, slot := range row.Slots {
		if row.Kind == "int" {
			var v string
			_ = json.Unmarshal(row.Vals[i], &v)
			setInt(raw, slot, v)
			desc = append(desc, slot+"="+v)
		} else {
			var id int
			_ = json.Unmarshal(row.Vals[i], &id)
			s := poolString(id, r)
			setStr(raw, slot, s)
			if len(row.Slots) == 1 {
				tail = tailSpec(slot, s)
			}
			desc = append(desc, fmt.Sprintf("%s=%q", slot, s))
		}
	}
	what := strings.Join(desc, " ") + " as " + row.Enc
	dir := mkScratch("rt")
	defer os.RemoveAll(dir)
	report := func(m Mismatch) {
		m.Case, m.Row, m.Props = idx, json.RawMessage(line), []string{"C09"}
		if m.Note == "" {
			m.Note = what
		}
		col.add(m)
	}
	name := "rt"
	if row.Enc != "none" {
		name += "." + row.Enc
	}
	accepted := false
	variants := []*specs.Spec{raw}
	if tail != nil {
		variants = append(variants, tail)
	}
	for vi, raw := range variants {
		raw := raw
		dir := filepath.Join(dir, fmt.Sprintf("v%d", vi))
		if vi == 1 {
			what = strings.Join(desc, " ") + " (last scalar of the document) as " + row.Enc
		}
		pan, stack, hung := guarded(60*time.Second, func() {
			want := canon(raw)
			c, _ := cdi.NewCache(cdi.WithSpecDirs(dir), cdi.WithAutoRefresh(false))
			if err := c.WriteSpec(raw, name); err != nil {
				col.count("rejected_for_writing", 1)
				return // not "accepted for writing": nothing is promised
			}
			accepted = true
			if canon(raw) != want {
				report(Mismatch{What: "writing-changed-the-spec-value", Want: want, Got: canon(raw)})
			}
			path := filepath.Join(dir, name)
			if row.Enc == "none" {
				path += ".yaml"
			}
			sp, err := cdi.ReadSpec(path, 0)
			if err != nil {
				data, _ := os.ReadFile(path)
				report(Mismatch{What: "written-file-cannot-be-read-back", Want: "success", Got: err.Error(), Note: what + "\nfile: " + firstBytes(data, 600)})
				return
			}
			if got := canon(sp.Spec); got != want {
				report(Mismatch{What: "read-back-spec-differs", Want: want, Got: got})
			}
			if err := c.Refresh(); err != nil {
				report(Mismatch{What: "written-file-does-not-load", Got: err.Error()})
			}
			for i := range raw.Devices {
				d := c.GetDevice("v1.com/cls=" + raw.Devices[i].Name)
				if d == nil {
					report(Mismatch{What: "device-missing-after-load", Want: raw.Devices[i].Name})
					continue
				}
				wb, _ := json.Marshal(raw.Devices[i])
				var wv interface{}
				_ = json.Unmarshal(wb, &wv)
				gb, _ := json.Marshal(d.Device)
				var gv interface{}
				_ = json.Unmarshal(gb, &gv)
				if jsonOf(dropEmpty(wv)) != jsonOf(dropEmpty(gv)) {
					report(Mismatch{What: "loaded-device-differs", Want: string(wb), Got: string(gb)})
				}
			}
		})
		if pan != nil {
			report(Mismatch{Props: []string{"C08", "C09"}, What: "panic", Got: fmt.Sprint(pan), Note: what + "\n" + stack})
		}
		if hung {
			report(Mismatch{Props: []string{"C08", "C09"}, What: "hang", Note: what})
		}
	}
	col.done(line, accepted, 4*len(variants))
}

func roundtripMain(args []string) int {
	fs := flag.NewFlagSet("roundtrip", flag.ExitOnError)
	var cf commonFlags
	addCommon(fs, &cf)
	_ = fs.Parse(args)
	start := time.Now()
	col := newCollector()
	if err := forEachCase(&cf, func(idx int, line []byte) { roundtripRow(idx, line, cf.seed, col) }); err != nil {
		fmt.Fprintln(os.Stderr, err)
		return 2
	}
	return col.finish(start)
}
