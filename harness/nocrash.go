package main

// nocrash: C08.  Every document of the structured corpus (token documents, JSON-level
// mutations: null / number / object / array at every slot, removed and extra members), in
// both encodings, plus lexical perturbations the models name (truncation at many offsets, deep
// nesting, YAML anchors/aliases/tags/merge keys, huge scalars, binary junk), is pushed through
// every public entry point that takes untrusted input, under recover() and a watchdog, and
// through a live auto-refresh cache whose watcher goroutine has to survive.

import (
	"bytes"
	"encoding/json"
	"flag"
	"fmt"
	"math/rand"
	"os"
	"path/filepath"
	"strings"
	"sync/atomic"
	"time"

	oci "github.com/opencontainers/runtime-spec/specs-go"
	"sigs.k8s.io/yaml"
	"tags.cncf.io/container-device-interface/pkg/cdi"
	"tags.cncf.io/container-device-interface/pkg/parser"
	"tags.cncf.io/container-device-interface/schema"
	specs "tags.cncf.io/container-device-interface/specs-go"
)

func init() { register("nocrash", nocrashMain) }

var hostileOCI = []func() *oci.Spec{
	func() *oci.Spec { return &oci.Spec{} },
	func() *oci.Spec { return &oci.Spec{Process: &oci.Process{}} },
	func() *oci.Spec { return &oci.Spec{Linux: &oci.Linux{}} },
	func() *oci.Spec {
		return &oci.Spec{Linux: &oci.Linux{Resources: &oci.LinuxResources{}}, Hooks: &oci.Hooks{}}
	},
	func() *oci.Spec {
		return &oci.Spec{Process: &oci.Process{Env: []string{"", "=", "A", "A=b"}}, Mounts: []oci.Mount{{}, {Destination: "//"}},
			Linux: &oci.Linux{Devices: []oci.LinuxDevice{{}}, IntelRdt: &oci.LinuxIntelRdt{}}}
	},
	baseOCI,
}

func variantsOf(doc []byte, r *rand.Rand) [][]byte {
	out := [][]byte{doc}
	if y, err := yaml.JSONToYAML(doc); err == nil {
		out = append(out, y)
		// YAML features: anchors/aliases, merge keys, tags, document markers, flow/block mixes
		out = append(out, []byte("anchors: &a\n  env: [\"A=b\"]\n"+string(y)+"containerEdits: *a\n"))
		out = append(out, []byte("--- !!map\n"+string(y)+"...\n---\n"+string(y)))
		out = append(out, []byte("<<: {cdiVersion: \"0.3.0\"}\n"+string(y)))
		out = append(out, bytes.ReplaceAll(y, []byte("name:"), []byte("name: !!binary")))
		out = append(out, bytes.ReplaceAll(y, []byte("devices:"), []byte("devices: !!set")))
	}
	// truncation
	for i := 0; i < 6 && len(doc) > 1; i++ {
		out = append(out, doc[:r.Intn(len(doc))])
	}
	// huge scalars, deep nesting, junk
	out = append(out, bytes.Replace(doc, []byte(`"kind":`), []byte(`"kind":"`+strings.Repeat("k", 1<<16)+`","x":`), 1))
	out = append(out, []byte(strings.Repeat(`{"devices":[`, 200)+strings.Repeat(`]}`, 200)))
	out = append(out, []byte(strings.Repeat("[", 5000)))
	out = append(out, []byte(strings.Repeat("a: &x [*x, ", 50)))
	out = append(out, []byte("\x00\x01\xff\xfe{\"cdiVersion\""))
	// documents without data: empty, blank, comment only, marker only, null, a scalar, a list
	for _, d := range []string{"", " \n\t\n", "# nothing\n", "---\n", "--- ~\n", "null\n", "...\n", "42\n", "- a\n", "\"s\"\n", "{}", "[]"} {
		out = append(out, []byte(d))
	}
	out = append(out, bytes.Replace(doc, []byte(`"cdiVersion"`), []byte(`"cdiVersion":1e400,"cdiVersion"`), 1))
	return out
}

func nocrashMain(args []string) int {
	fs := flag.NewFlagSet("nocrash", flag.ExitOnError)
	var cf commonFlags
	addCommon(fs, &cf)
	marker := fs.String("marker-dir", "", "directory where the input being processed is recorded (to name the culprit after a crash)")
	_ = fs.Parse(args)
	start := time.Now()
	col := newCollector()
	builtin := schema.BuiltinSchema()
	var watcherExits int64
	cdi.VerifHook = func(point string, a ...interface{}) {
		if point == "watch.exit" {
			atomic.AddInt64(&watcherExits, 1)
		}
	}
	var wid int64
	err := forEachCase(&cf, func(idx int, line []byte) {
		var row schemaDoc
		if json.Unmarshal(line, &row) != nil {
			return
		}
		r := rand.New(rand.NewSource(cf.seed*7919 + int64(idx)))
		me := atomic.AddInt64(&wid, 1)
		root := mkScratch("nocrash")
		defer os.RemoveAll(root)
		live := filepath.Join(root, "live")
		_ = os.MkdirAll(live, 0o755)
		// a live auto-refresh cache: its watcher goroutine parses whatever lands in the directory
		exits0 := atomic.LoadInt64(&watcherExits)
		lc, _ := cdi.NewCache(cdi.WithSpecDirs(live), cdi.WithAutoRefresh(true))
		steps := 0
		for vi, data := range variantsOf(row.Doc, r) {
			vi, data := vi, data
			if *marker != "" {
				_ = os.WriteFile(filepath.Join(*marker, fmt.Sprintf("current-%d", me%64)), data, 0o644)
			}
			short := firstBytes(data, 500)
			report := func(m Mismatch) {
				m.Case, m.Step, m.Props = idx, vi, []string{"C08"}
				m.Note = fmt.Sprintf("%q\n%s", short, m.Note)
				col.add(m)
			}
			pan, stack, hung := guarded(30*time.Second, func() {
				raw, _ := cdi.ParseSpec(data)
				for _, name := range []string{"f.json", "f.yaml"} {
					p := filepath.Join(root, name)
					_ = os.WriteFile(p, data, 0o644)
					_, _ = cdi.ReadSpec(p, 0)
					_ = builtin.ValidateFile(p)
					_ = os.Remove(p)
					steps += 2
				}
				_ = builtin.ValidateData(data)
				_ = builtin.ValidateReader(bytes.NewReader(data))
				_, _ = builtin.ReadAndValidate(bytes.NewReader(data))
				steps += 3
				if raw != nil {
					_ = builtin.Validate(raw)
					_, _ = specs.MinimumRequiredVersion(raw)
					_ = specs.ValidateVersion(raw)
					wc, _ := cdi.NewCache(cdi.WithSpecDirs(filepath.Join(root, "w")), cdi.WithAutoRefresh(false))
					if wc.WriteSpec(raw, "w.json") == nil {
						// a loadable Spec: inject every device into hostile OCI specs
						_ = wc.Refresh()
						for _, q := range wc.ListDevices() {
							for _, mk := range hostileOCI {
								_, _ = wc.InjectDevices(mk(), q)
								if d := wc.GetDevice(q); d != nil {
									_ = d.ApplyEdits(mk())
									_ = d.GetSpec().ApplyEdits(mk())
								}
								steps += 3
							}
						}
						_ = wc.RemoveSpec("w.json")
					}
					// strings of the document as device names and annotations
					ann := map[string]string{}
					for i, d := range raw.Devices {
						_, _, _, _ = parser.ParseQualifiedName(d.Name)
						_, _, _ = parser.ParseDevice(raw.Kind + "=" + d.Name)
						ann[fmt.Sprintf("cdi.k8s.io/k%d", i)] = raw.Kind + "=" + d.Name + "," + d.Name
						_, _ = cdi.AnnotationKey(raw.Kind, d.Name)
						_, _ = cdi.UpdateAnnotations(map[string]string{}, d.Name, raw.Kind, []string{d.Name})
						steps += 4
					}
					_, _, _ = cdi.ParseAnnotations(ann)
				}
				// the live cache: file lands, watcher refreshes, queries keep working
				p := filepath.Join(live, "l.json")
				if vi%2 == 1 {
					p = filepath.Join(live, "l.yaml")
				}
				_ = os.WriteFile(p, data, 0o644)
				_ = lc.ListDevices()
				_ = lc.GetErrors()
				steps += 2
			})
			if pan != nil {
				report(Mismatch{What: "panic", Got: fmt.Sprint(pan), Note: stack})
			}
			if hung {
				report(Mismatch{What: "hang"})
			}
		}
		// the watcher goroutine of the live cache must still be there (it only exits on Configure)
		time.Sleep(2 * time.Millisecond)
		_ = os.WriteFile(filepath.Join(live, "final.json"), []byte(goodNeighbour), 0o644)
		ok := false
		for end := time.Now().Add(5 * time.Second); time.Now().Before(end); time.Sleep(5 * time.Millisecond) {
			if lc.GetDevice("neighbour.org/ok=n") != nil {
				ok = true
				break
			}
		}
		if !ok {
			col.add(Mismatch{Case: idx, Step: -1, Props: []string{"C08"}, What: "background-refresh-stopped-working", Note: firstBytes(row.Doc, 500), Row: json.RawMessage(line)})
		}
		if atomic.LoadInt64(&watcherExits) != exits0 && ok {
			col.count("watcher_exits_seen_elsewhere", 1)
		}
		_ = lc.Configure(cdi.WithAutoRefresh(false))
		col.done(line, true, steps)
	})
	if err != nil {
		fmt.Fprintln(os.Stderr, err)
		return 2
	}
	return col.finish(start)
}
